//! Generators (DESIGN 3.6): proptest strategies for literals, expression
//! trees, unit spellings with a prescribed dimension, and quantities.

use crate::ast::{Expr, Lit, Op, USpell, Word};
use crate::runner::pick_idx;
use crate::tool::{parse_compound, Mirror};
use crate::units_ref::{typable_word, vocab, Dim, ZERO_DIM};
use proptest::prelude::*;
use std::sync::OnceLock;

/// Weighted union that tolerates zero weights (proptest's `prop_oneof!` panics on them).
pub fn wunion<T: std::fmt::Debug + 'static>(options: Vec<(u32, BoxedStrategy<T>)>) -> BoxedStrategy<T> {
    let opts: Vec<(u32, BoxedStrategy<T>)> = options.into_iter().filter(|(w, _)| *w > 0).collect();
    proptest::strategy::Union::new_weighted(opts).boxed()
}

// ------------------------------------------------------------------ literals

#[derive(Clone, Copy, Debug)]
pub struct LitCfg {
    pub max_int_digits: usize,
    pub max_frac_digits: usize,
    pub max_exp: u32,
    pub allow_percent: bool,
    pub allow_neg: bool,
    pub allow_plus: bool,
    pub allow_exotic: bool,
}

impl LitCfg {
    pub const SMALL: LitCfg = LitCfg { max_int_digits: 4, max_frac_digits: 3, max_exp: 3, allow_percent: true, allow_neg: true, allow_plus: false, allow_exotic: true };
    pub const BIG: LitCfg = LitCfg { max_int_digits: 60, max_frac_digits: 40, max_exp: 40, allow_percent: true, allow_neg: true, allow_plus: true, allow_exotic: true };
    pub const PLAIN: LitCfg = LitCfg { max_int_digits: 4, max_frac_digits: 3, max_exp: 2, allow_percent: false, allow_neg: true, allow_plus: false, allow_exotic: false };
}

fn digits(max: usize) -> impl Strategy<Value = String> {
    prop::collection::vec(0u8..10, 1..=max.max(1)).prop_map(|v| v.into_iter().map(|d| (b'0' + d) as char).collect())
}

/// Well-formed literal per the grammar of C07.
pub fn lit(cfg: LitCfg) -> impl Strategy<Value = Lit> {
    let sign = wunion(vec![
        (6, Just("").boxed()),
        (if cfg.allow_neg { 3 } else { 0 }, Just("-").boxed()),
        (if cfg.allow_plus { 1 } else { 0 }, Just("+").boxed()),
    ]);
    // body: int | int.frac | int. | .frac
    let body = wunion(vec![
        (5, digits(cfg.max_int_digits).boxed()),
        (4, (digits(cfg.max_int_digits), digits(cfg.max_frac_digits)).prop_map(|(a, b)| format!("{}.{}", a, b)).boxed()),
        (if cfg.allow_exotic { 1 } else { 0 }, digits(cfg.max_int_digits).prop_map(|a| format!("{}.", a)).boxed()),
        (if cfg.allow_exotic { 1 } else { 0 }, digits(cfg.max_frac_digits).prop_map(|b| format!(".{}", b)).boxed()),
    ]);
    let exp = wunion(vec![
        (7, Just(String::new()).boxed()),
        (
            if cfg.max_exp > 0 { 3 } else { 0 },
            (prop_oneof![Just("e"), Just("E")], prop_oneof![3 => Just(""), 2 => Just("-"), 1 => Just("+")], 0..=cfg.max_exp.max(1), any::<bool>())
                .prop_map(|(e, s, n, lead0)| if lead0 { format!("{}{}0{}", e, s, n) } else { format!("{}{}{}", e, s, n) })
                .boxed(),
        ),
    ]);
    let pct = wunion(vec![(9, Just("").boxed()), (if cfg.allow_percent { 1 } else { 0 }, Just("%").boxed())]);
    (sign, body, exp, pct).prop_map(|(s, b, e, p)| {
        // a literal ending in '.' cannot be followed by an exponent marker glued to it
        // (`1.e5` is still well formed), keep as is
        let text = format!("{}{}{}{}", s, b, e, p);
        Lit::from_text(&text)
    })
}

/// Literals next to the boundaries of machine words and of the decimal buffers an implementation might
/// use: (2^k + j) or (10^k + j), optionally with the decimal point moved and a small exponent.
pub fn word_boundary_lit() -> impl Strategy<Value = Lit> {
    let k2 = prop_oneof![Just(8u32), Just(15), Just(16), Just(31), Just(32), Just(53), Just(63), Just(64), Just(96), Just(127), Just(128)];
    let k10 = prop_oneof![Just(9u32), Just(10), Just(17), Just(18), Just(19), Just(20), Just(36), Just(38), Just(39)];
    let base = prop_oneof![
        3 => k2.prop_map(|k| num::BigInt::from(1) << k as usize),
        2 => k10.prop_map(|k| num::pow(num::BigInt::from(10), k as usize)),
    ];
    (base, -3i64..=3, 0usize..=4, prop_oneof![4 => Just(""), 2 => Just("-"), 1 => Just("+")], prop::option::weighted(0.25, -20i32..=20)).prop_map(|(b, j, p, sign, e)| {
        let n = b + num::BigInt::from(j);
        let mut t = n.to_string();
        if p > 0 && t.len() > p {
            t.insert(t.len() - p, '.');
        }
        let e = match e {
            Some(e) => format!("e{}", e),
            None => String::new(),
        };
        Lit::from_text(&format!("{}{}{}", sign, t, e))
    })
}

/// Small "nice" numbers for shape-focused checks.
pub fn small_lit() -> impl Strategy<Value = Lit> {
    prop_oneof![
        (0i64..=12).prop_map(Lit::int),
        (-9i64..=-1).prop_map(Lit::int),
        prop_oneof![Just("0.5"), Just("1.5"), Just("2.25"), Just("0.1"), Just("-0.5"), Just("1e2"), Just("2e-1"), Just("50%"), Just("0.0"), Just("3.")].prop_map(Lit::from_text),
    ]
}

// ------------------------------------------------------------ numeric trees

#[derive(Clone, Copy, Debug)]
pub struct TreeCfg {
    pub depth: u32,
    pub size: u32,
    pub max_pow: i32,
    pub pow_weight_cap: u64,
    pub lit: LitCfg,
    pub calls: bool,
}

pub fn op() -> impl Strategy<Value = Op> {
    prop_oneof![Just(Op::Add), Just(Op::Sub), Just(Op::Mul), Just(Op::Div)]
}

/// Numeric expression trees (no units).
pub fn num_expr(cfg: TreeCfg) -> impl Strategy<Value = Expr> {
    let leaf = prop_oneof![
        6 => lit(cfg.lit).prop_map(Expr::Num),
        3 => small_lit().prop_map(Expr::Num),
        1 => Just(Expr::Num(Lit::int(0))),
    ];
    let maxp = cfg.max_pow;
    let calls = cfg.calls;
    let cap = cfg.pow_weight_cap;
    leaf.prop_recursive(cfg.depth, cfg.size, 2, move |inner| {
        wunion(vec![
            (8, (op(), inner.clone(), inner.clone()).prop_map(|(o, a, b)| Expr::bin(o, a, b)).boxed()),
            (2, (inner.clone(), -maxp..=maxp).prop_map(|(a, n)| Expr::Pow(Box::new(a), n)).boxed()),
            (
                1,
                (inner.clone(), 0i64..=3, any::<bool>())
                    .prop_map(|(a, n, neg)| {
                        // exponent written as a parenthesised integer-valued expression: (n+1 - 1) or (0 - n)
                        let x = if neg { Expr::bin(Op::Sub, Expr::num(0), Expr::num(n)) } else { Expr::bin(Op::Sub, Expr::num(n + 1), Expr::num(1)) };
                        Expr::PowE(Box::new(a), Box::new(x))
                    })
                    .boxed(),
            ),
            (1, inner.clone().prop_map(|a| Expr::Paren(Box::new(a))).boxed()),
            (if calls { 1 } else { 0 }, (prop_oneof![Just("floor"), Just("ceil"), Just("round")], inner.clone()).prop_map(|(f, a)| Expr::Call(f, vec![a])).boxed()),
        ])
    })
    .prop_map(move |e| cap_pow(e, cap))
}

/// Enforce the size guard by construction: reduce exponents until the product
/// of |exponents| along any path is within `cap`.
pub fn cap_pow(e: Expr, cap: u64) -> Expr {
    fn go(e: Expr, budget: u64) -> Expr {
        match e {
            Expr::Bin(o, a, b) => Expr::Bin(o, Box::new(go(*a, budget)), Box::new(go(*b, budget))),
            Expr::Pow(a, n) => {
                let mut n = n;
                while (n.unsigned_abs() as u64) > budget.max(1) {
                    n /= 2;
                }
                let rest = budget / (n.unsigned_abs() as u64).max(1);
                Expr::Pow(Box::new(go(*a, rest)), n)
            }
            Expr::PowE(a, x) => {
                if budget < 8 {
                    go(*a, budget)
                } else {
                    Expr::PowE(Box::new(go(*a, budget / 8)), x)
                }
            }
            Expr::Cast(a, u) => Expr::Cast(Box::new(go(*a, budget)), u),
            Expr::Paren(a) => Expr::Paren(Box::new(go(*a, budget))),
            Expr::Call(f, v) => Expr::Call(f, v.into_iter().map(|a| go(a, budget)).collect()),
            other => other,
        }
    }
    go(e, cap)
}

// ------------------------------------------------------------------ words

#[derive(Clone, Debug)]
pub struct WordInfo {
    pub word: Word,
    /// Reading the tool gives to the word (None: rejected).
    pub tool_reading: Option<Mirror>,
    /// The tool reads the word as exactly (prefix, unit) as declared.
    pub safe: bool,
}

pub struct Words {
    /// Every typable `[prefix]name` word of the vocabulary with its declared reading.
    pub all: Vec<WordInfo>,
    /// Indices of safe words per unit.
    pub safe_by_unit: Vec<Vec<usize>>,
    pub untypable: usize,
}

pub fn words() -> &'static Words {
    static W: OnceLock<Words> = OnceLock::new();
    W.get_or_init(|| {
        let v = vocab();
        let mut all = Vec::new();
        let mut untypable = 0;
        for (ui, u) in v.units.iter().enumerate() {
            for name in &u.names {
                let mut spellings: Vec<(String, i32)> = vec![(String::new(), 0)];
                for p in &v.prefixes {
                    for pn in &p.names {
                        spellings.push((pn.clone(), p.exp));
                    }
                }
                for (ps, pe) in spellings {
                    let text = format!("{}{}", ps, name);
                    if !typable_word(&text) {
                        untypable += 1;
                        continue;
                    }
                    let word = Word { text: text.clone(), unit: ui, prefix: pe };
                    let mut expect = Mirror::new();
                    expect.insert(u.key(), (1, pe + u.bias));
                    let reading = match parse_compound(&text) {
                        Ok(Ok(m)) => Some(m),
                        _ => None,
                    };
                    let safe = reading.as_ref() == Some(&expect);
                    all.push(WordInfo { word, tool_reading: reading, safe });
                }
            }
        }
        let mut safe_by_unit = vec![Vec::new(); v.units.len()];
        for (i, w) in all.iter().enumerate() {
            if w.safe {
                safe_by_unit[w.word.unit].push(i);
            }
        }
        Words { all, safe_by_unit, untypable }
    })
}

/// A safe word for unit `ui`, chosen by (name/prefix selector).
fn safe_word(ui: usize, sel: u16, want_prefix: bool) -> Option<Word> {
    let w = words();
    let cands: Vec<usize> = w.safe_by_unit[ui].iter().copied().filter(|i| want_prefix || w.all[*i].word.prefix == 0).collect();
    if cands.is_empty() {
        return w.safe_by_unit[ui].first().map(|i| w.all[*i].word.clone());
    }
    Some(w.all[cands[pick_idx(sel, cands.len())]].word.clone())
}

// --------------------------------------------------------------- spellings

/// Indices of proportional units usable in generated spellings.
pub fn proportional_units() -> &'static Vec<usize> {
    static P: OnceLock<Vec<usize>> = OnceLock::new();
    P.get_or_init(|| {
        let v = vocab();
        let w = words();
        (0..v.units.len()).filter(|i| !v.units[*i].offset && !w.safe_by_unit[*i].is_empty()).collect()
    })
}

pub fn base_unit_index(dim_idx: usize) -> usize {
    // Gram, Meter, Second, Ampere, Kelvin, Mole, Candela, Byte in vocab order
    let names = ["Gram", "Meter", "Second", "Ampere", "Kelvin", "Mole", "Candela", "Byte"];
    vocab().by_variant[names[dim_idx]]
}

#[derive(Clone, Debug)]
pub struct RawPick {
    pub unit: u16,
    pub word: u16,
    pub prefixed: bool,
    pub power: i32,
}

pub fn raw_pick(max_power: i32) -> impl Strategy<Value = RawPick> {
    (any::<u16>(), any::<u16>(), prop::bool::weighted(0.35), prop_oneof![4 => Just(1), 2 => Just(-1), 1 => Just(2), 1 => Just(-2), 1 => (-max_power..=max_power).prop_filter("nonzero", |p| *p != 0)])
        .prop_map(|(unit, word, prefixed, power)| RawPick { unit, word, prefixed, power })
}

#[derive(Clone, Debug)]
pub struct RawSpell {
    pub picks: Vec<RawPick>,
    pub residual_words: [u16; 8],
    pub residual_prefixed: [bool; 8],
    pub slash: bool,
    pub star: bool,
    pub order: u16,
}

pub fn raw_spell(max_picks: usize, max_power: i32) -> impl Strategy<Value = RawSpell> {
    (prop::collection::vec(raw_pick(max_power), 0..=max_picks), any::<[u16; 8]>(), prop::array::uniform8(prop::bool::weighted(0.3)), any::<bool>(), prop::bool::weighted(0.7), any::<u16>())
        .prop_map(|(picks, residual_words, residual_prefixed, slash, star, order)| RawSpell { picks, residual_words, residual_prefixed, slash, star, order })
}

/// Build a spelling with exactly dimension `dim`: the picked derived units are
/// used as given and the residual is spelled in base units (each unit at most
/// once per spelling).  `derived_only` picks never include base units, so the
/// residual cannot collide with a pick.
pub fn build_spelling(raw: &RawSpell, dim: &Dim) -> USpell {
    let v = vocab();
    let prop = proportional_units();
    let derived: Vec<usize> = prop.iter().copied().filter(|i| !v.units[*i].is_base).collect();
    let mut factors: Vec<(Word, i32)> = Vec::new();
    let mut residual = *dim;
    let mut used = std::collections::BTreeSet::new();
    for p in &raw.picks {
        let ui = derived[pick_idx(p.unit, derived.len())];
        if !used.insert(ui) {
            continue;
        }
        if let Some(w) = safe_word(ui, p.word, p.prefixed) {
            for i in 0..8 {
                residual[i] -= v.units[ui].dim[i] * p.power;
            }
            factors.push((w, p.power));
        }
    }
    for i in 0..8 {
        if residual[i] != 0 {
            let ui = base_unit_index(i);
            let w = safe_word(ui, raw.residual_words[i], raw.residual_prefixed[i]).expect("base units have safe words");
            factors.push((w, residual[i]));
        }
    }
    // rotate the factor order
    if !factors.is_empty() {
        let r = pick_idx(raw.order, factors.len());
        factors.rotate_left(r);
    }
    // one spelling in six writes one of its units twice with the same prefix (`km^3 km^-1` for km^2):
    // powers of a repeated unit add up, whatever prefix or scale factor it carries
    if !factors.is_empty() && (raw.order >> 9) % 6 == 0 {
        let i = pick_idx(raw.order.rotate_left(5), factors.len());
        let (w, p) = factors[i].clone();
        let k = if (raw.order >> 12) & 1 == 0 { 1 } else { 2 };
        if p + k != 0 {
            factors[i] = (w.clone(), p + k);
            factors.insert(i + 1, (w, -k));
        }
    }
    // one spelling in six carries a factor that cancels inside it, written with explicit exponents
    let noise = if (raw.order >> 4) % 6 == 0 { 1 + (raw.order >> 7) } else { 0 };
    USpell { factors, slash: raw.slash, star: raw.star, noise, starstar: (raw.order >> 2) % 5 == 0 }
}

/// A free spelling (its dimension is whatever the picks give), then optionally
/// padded with base units; used as the "first" spelling of a pair.
pub fn free_spelling(max_picks: usize, max_power: i32) -> impl Strategy<Value = USpell> {
    (raw_spell(max_picks, max_power), prop::array::uniform8(prop_oneof![6 => Just(0i32), 1 => Just(1), 1 => Just(-1), 1 => -3i32..=3]))
        .prop_map(|(raw, extra)| {
            // dimension = picks' dimension + a sparse extra vector in base units
            let v = vocab();
            let prop = proportional_units();
            let derived: Vec<usize> = prop.iter().copied().filter(|i| !v.units[*i].is_base).collect();
            let mut dim = ZERO_DIM;
            let mut used = std::collections::BTreeSet::new();
            for p in &raw.picks {
                let ui = derived[pick_idx(p.unit, derived.len())];
                if used.insert(ui) {
                    for i in 0..8 {
                        dim[i] += v.units[ui].dim[i] * p.power;
                    }
                }
            }
            // keep `extra` sparse: at most two coordinates
            let mut n = 0;
            for i in 0..8 {
                if extra[i] != 0 && n < 2 {
                    dim[i] += extra[i];
                    n += 1;
                }
            }
            build_spelling(&raw, &dim)
        })
        .prop_filter("non-empty spelling", |s| !s.factors.is_empty())
}

/// A spelling for a given dimension.
pub fn spelling_for(dim: Dim, max_picks: usize, max_power: i32) -> impl Strategy<Value = USpell> {
    raw_spell(max_picks, max_power).prop_map(move |raw| build_spelling(&raw, &dim))
}

/// Pair of commensurable spellings (same dimension, independent structure).
pub fn commensurable_pair(max_picks: usize, max_power: i32) -> impl Strategy<Value = (USpell, USpell)> {
    (free_spelling(max_picks, max_power), raw_spell(max_picks, max_power))
        .prop_map(|(a, raw)| {
            let d = a.dim();
            let b = build_spelling(&raw, &d);
            (a, b)
        })
        .prop_filter("second spelling non-empty", |(_, b)| !b.factors.is_empty())
}

/// A single simple unit word spelling (one factor, power 1).
pub fn single_unit() -> impl Strategy<Value = USpell> {
    (any::<u16>(), any::<u16>(), prop::bool::weighted(0.4)).prop_map(|(u, w, p)| {
        let prop = proportional_units();
        let ui = prop[pick_idx(u, prop.len())];
        let word = safe_word(ui, w, p).unwrap();
        USpell { factors: vec![(word, 1)], slash: true, star: true, noise: 0, starstar: false }
    })
}

pub fn fixed_spell(parts: &[(&str, i32)]) -> USpell {
    // helper for hand-written corpus cases: look the words up among the safe words
    let w = words();
    let mut factors = Vec::new();
    for (t, p) in parts {
        let wi = w.all.iter().find(|wi| wi.word.text == *t && wi.safe).unwrap_or_else(|| panic!("word {} is not a safe word", t));
        factors.push((wi.word.clone(), *p));
    }
    USpell { factors, slash: true, star: true, noise: 0, starstar: false }
}
