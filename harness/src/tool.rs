//! Thin, panic-safe access to the code under test through its public API,
//! plus the `Compound` mirror (DESIGN 3.3).

use crate::runner::guarded;
use anything::{parse, query, Compound, Db, Description, Numeric, Options};
use num::{BigInt, BigRational};
use serde_cbor::Value as Cbor;
use std::collections::BTreeMap;

/// One unit of a mirrored compound: base-unit variant name ("Meter") or derived id.
#[derive(Clone, Debug, PartialEq, Eq, PartialOrd, Ord, Hash)]
pub enum UKey {
    Base(String),
    Derived(u32),
}

/// Mirror of a `Compound`: unit → (power, prefix).
pub type Mirror = BTreeMap<UKey, (i32, i32)>;

pub fn mirror(c: &Compound) -> Mirror {
    let v = serde_cbor::value::to_value(c).expect("Compound serialises");
    mirror_from_cbor(&v).expect("Compound has the documented shape")
}

/// How this build writes the eight base units as map keys (today the variant names: "Meter"): observed once by
/// serialising the compound each base symbol parses to, so that a build which writes them under other names
/// (and still reads the documented ones) can be observed all the same.
fn base_key_names() -> &'static BTreeMap<String, String> {
    static M: std::sync::OnceLock<BTreeMap<String, String>> = std::sync::OnceLock::new();
    M.get_or_init(|| {
        let mut m = BTreeMap::new();
        for (symbol, variant) in [("kg", "KiloGram"), ("cd", "Candela"), ("m", "Meter"), ("s", "Second"), ("A", "Ampere"), ("K", "Kelvin"), ("mol", "Mole"), ("B", "Byte")] {
            let written = symbol.parse::<Compound>().ok().and_then(|c| serde_cbor::value::to_value(&c).ok()).and_then(|v| match v {
                Cbor::Map(top) => match top.get(&Cbor::Text("names".into())) {
                    Some(Cbor::Map(names)) if names.len() == 1 => match names.keys().next() {
                        Some(Cbor::Text(t)) => Some(t.clone()),
                        _ => None,
                    },
                    _ => None,
                },
                _ => None,
            });
            m.insert(written.unwrap_or_else(|| variant.to_string()), variant.to_string());
        }
        m
    })
}

pub fn mirror_from_cbor(v: &Cbor) -> Option<Mirror> {
    let mut out = Mirror::new();
    let top = match v {
        Cbor::Map(m) => m,
        _ => return None,
    };
    let names = top.get(&Cbor::Text("names".into()))?;
    let names = match names {
        Cbor::Map(m) => m,
        _ => return None,
    };
    for (k, st) in names {
        let key = match k {
            Cbor::Text(t) => UKey::Base(base_key_names().get(t).cloned().unwrap_or_else(|| t.clone())),
            // {"Derived": id} — whatever the tag is called
            Cbor::Map(m) if m.len() == 1 => match m.values().next()? {
                Cbor::Integer(i) => UKey::Derived(*i as u32),
                _ => return None,
            },
            _ => return None,
        };
        let st = match st {
            Cbor::Map(m) => m,
            _ => return None,
        };
        let geti = |n: &str| match st.get(&Cbor::Text(n.into())) {
            Some(Cbor::Integer(i)) => Some(*i as i32),
            _ => None,
        };
        out.insert(key, (geti("power")?, geti("prefix")?));
    }
    Some(out)
}

#[derive(Clone, Debug)]
pub struct Val {
    pub value: BigRational,
    pub unit: Mirror,
    pub unit_text: String,
    pub unit_text_plural: String,
    pub has_numerator: bool,
    /// numer()/denom() as handed out by the tool are in canonical form: denominator > 0 and lowest terms
    pub canonical: bool,
}

#[derive(Clone, Debug)]
pub enum R {
    Ok(Val),
    Err { msg: String, start: usize, end: usize },
}

impl R {
    pub fn is_ok(&self) -> bool {
        matches!(self, R::Ok(_))
    }
    pub fn brief(&self) -> String {
        match self {
            R::Ok(v) => format!("{} [{}]", v.value, v.unit_text),
            R::Err { msg, start, end } => format!("error({}..{}): {}", start, end, msg),
        }
    }
}

/// Euclid's algorithm with `%`: linear for a small operand against a huge one (the library's binary
/// gcd is quadratic there, which matters for literals with five-digit exponents).
pub fn euclid_gcd(a: &BigInt, b: &BigInt) -> BigInt {
    use num::{Signed, Zero};
    let (mut a, mut b) = (a.abs(), b.abs());
    while !b.is_zero() {
        let r = &a % &b;
        a = b;
        b = r;
    }
    a
}

/// The tool's fraction as a normalised `BigRational` (panics on a zero denominator, like `BigRational::new`).
pub fn to_big(r: &anything::Rational) -> BigRational {
    use num::{One, Signed, Zero};
    let (n, d) = (r.numer(), r.denom());
    if d.is_zero() {
        panic!("denominator == 0 in a value handed out by the tool");
    }
    let g = euclid_gcd(n, d);
    let (mut n, mut d) = if g.is_one() { (n.clone(), d.clone()) } else { (n / &g, d / &g) };
    if d.is_negative() {
        n = -n;
        d = -d;
    }
    BigRational::new_raw(n, d)
}

/// The fraction as the tool stores it is canonical (what `--exact` prints and `is_integer` relies on).
pub fn is_canonical(r: &anything::Rational) -> bool {
    use num::{One, Signed};
    r.denom().is_positive() && euclid_gcd(r.numer(), r.denom()).is_one()
}

pub fn val_of(n: &Numeric) -> Val {
    Val {
        canonical: is_canonical(&n.value),
        value: to_big(&n.value),
        unit: mirror(&n.unit),
        unit_text: n.unit.display(false).to_string(),
        unit_text_plural: n.unit.display(true).to_string(),
        has_numerator: n.unit.has_numerator(),
    }
}

pub struct Desc {
    pub phrase: String,
    pub description: String,
    pub value: BigRational,
    pub unit: Mirror,
    pub tokens: Vec<String>,
    pub source: Option<u64>,
}

pub struct Run {
    pub results: Vec<R>,
    pub descs: Vec<Desc>,
    /// number of descriptions present after each result
    pub desc_marks: Vec<usize>,
}

/// A long-lived in-memory database for the calling thread.  The code under test is free to make
/// `Db` neither `Sync` nor `Send` (a cache behind a `RefCell`, say) without breaking this harness:
/// instances are leaked, leased to one thread at a time and handed back when that thread exits,
/// so they also stay long-lived across the sections of a check (state kept inside a `Db` between
/// queries is therefore exercised, which C18 relies on).
pub fn shared_db() -> &'static Db {
    use std::sync::Mutex;
    static POOL: Mutex<Vec<usize>> = Mutex::new(Vec::new());
    struct Lease(usize);
    impl Drop for Lease {
        fn drop(&mut self) {
            if let Ok(mut p) = POOL.lock() {
                p.push(self.0);
            }
        }
    }
    thread_local! {
        static LEASE: Lease = {
            let pooled = POOL.lock().ok().and_then(|mut p| p.pop());
            Lease(pooled.unwrap_or_else(|| Box::leak(Box::new(Db::in_memory().expect("in-memory database builds"))) as *const Db as usize))
        };
    }
    // SAFETY: the address is a leaked Box<Db>; the lease gives this thread exclusive use until it exits.
    LEASE.with(|l| unsafe { &*(l.0 as *const Db) })
}

/// Evaluate a query; Err(message) iff the library panicked.
pub fn run_full(db: &Db, q: &str, describe: bool) -> Result<Run, String> {
    guarded(q, || {
        let parsed = match parse(q) {
            Ok(p) => p,
            Err(e) => {
                return Run {
                    results: vec![R::Err { msg: format!("parse failed: {}", e), start: 0, end: 0 }],
                    descs: vec![],
                    desc_marks: vec![0],
                }
            }
        };
        let opts = if describe { Options::default().describe() } else { Options::default() };
        let mut descs = Vec::new();
        let mut results = Vec::new();
        let mut marks = Vec::new();
        {
            let mut it = query(&parsed, db, opts, &mut descs);
            while let Some(r) = it.next() {
                results.push(match r {
                    Ok(n) => R::Ok(val_of(&n)),
                    Err(e) => {
                        let rg = e.range();
                        R::Err { msg: e.to_string(), start: rg.start, end: rg.end }
                    }
                });
                marks.push(usize::MAX);
            }
        }
        // descriptions are only observable after the iterator is dropped; the
        // per-result marks are filled by run_marks when needed.
        let descs = descs
            .into_iter()
            .map(|d| match d {
                Description::Constant(p, c) => Desc {
                    phrase: p.to_string(),
                    description: c.description.to_string(),
                    value: to_big(&c.value),
                    unit: mirror(&c.unit),
                    tokens: c.tokens.iter().map(|t| t.to_string()).collect(),
                    source: c.source,
                },
                // a description of a kind this harness does not know (the enum may grow): kept as an entry that
                // is no looked-up phrase, so the checks that demand "exactly the phrases used" see it
                #[allow(unreachable_patterns)]
                _ => Desc { phrase: "<a description that is not a looked-up constant>".to_string(), description: String::new(), value: big(0), unit: Mirror::new(), tokens: vec![], source: None },
            })
            .collect();
        Run { results, descs, desc_marks: marks }
    })
}

/// Take only the FIRST result and drop the iterator (what the crate's own doc example does): the phrases
/// described so far.  None when the query does not parse or has no result.
pub fn first_result_descriptions(db: &Db, q: &str) -> Result<Option<(bool, Vec<String>)>, String> {
    guarded(q, || {
        let parsed = parse(q).ok()?;
        let mut descs = Vec::new();
        let ok = {
            let mut it = query(&parsed, db, Options::default().describe(), &mut descs);
            let first = it.next()?;
            first.is_ok()
        };
        Some((ok, descs
                .into_iter()
                .map(|d| match d {
                    Description::Constant(p, _) => p.to_string(),
                    #[allow(unreachable_patterns)]
                    _ => "<a description that is not a looked-up constant>".to_string(),
                })
                .collect(),
        ))
    })
}

pub fn run(db: &Db, q: &str) -> Result<Vec<R>, String> {
    run_full(db, q, false).map(|r| r.results)
}

/// Exactly one result expected.
pub fn run1(db: &Db, q: &str) -> Result<R, String> {
    let mut v = run(db, q)?;
    if v.len() == 1 {
        Ok(v.pop().unwrap())
    } else {
        Ok(R::Err { msg: format!("{} results: [{}]", v.len(), v.iter().map(|r| r.brief()).collect::<Vec<_>>().join("; ")), start: usize::MAX, end: usize::MAX })
    }
}

pub fn parse_compound(s: &str) -> Result<Result<Mirror, String>, String> {
    guarded(s, || match s.parse::<Compound>() {
        Ok(c) => Ok(mirror(&c)),
        Err(e) => Err(e.to_string()),
    })
}

pub fn big(n: i64) -> BigRational {
    BigRational::from_integer(BigInt::from(n))
}

pub fn ratio(n: i64, d: i64) -> BigRational {
    BigRational::new(BigInt::from(n), BigInt::from(d))
}

pub fn pow10(e: i64) -> BigRational {
    let p = num::pow(BigInt::from(10), e.unsigned_abs() as usize);
    if e >= 0 {
        BigRational::from_integer(p)
    } else {
        BigRational::new(BigInt::from(1), p)
    }
}

pub fn rpow(b: &BigRational, e: i64) -> Option<BigRational> {
    use num::Zero;
    if e >= 0 {
        Some(num::pow(b.clone(), e as usize))
    } else if b.is_zero() {
        None
    } else {
        Some(num::pow(b.recip(), (-e) as usize))
    }
}
