use verif_harness::facts::{facts, typable};
fn main() {
    let f = facts();
    println!("facts {} typable {} sources {} undecodable {:?}", f.all.len(), f.all.iter().filter(|x| typable(&x.tokens)).count(), f.sources.len(), f.undecodable);
    let mut files = std::collections::BTreeMap::new();
    for x in &f.all { *files.entry(x.file.clone()).or_insert(0) += 1; }
    println!("{:?}", files);
    for x in f.all.iter().take(5) { println!("{:?} {} {:?} {}", x.tokens, x.value, x.unit, x.description); }
    let mut units = std::collections::BTreeMap::new();
    for x in &f.all { *units.entry(format!("{:?}", x.unit)).or_insert(0) += 1; }
    println!("{:?}", units);
    for x in f.all.iter().filter(|x| !typable(&x.tokens)).take(8) { println!("untypable {:?}", x.tokens); }
    let mut tc = std::collections::BTreeMap::new();
    for x in f.all.iter().filter(|x| typable(&x.tokens)) { *tc.entry(x.tokens.len()).or_insert(0) += 1; }
    println!("typable constants by token count {:?}", tc);
    let mut minlen = std::collections::BTreeMap::new();
    for x in f.all.iter() { for t in &x.tokens { *minlen.entry(t.chars().count().min(4)).or_insert(0) += 1; } }
    println!("token length histogram (4 = 4+) {:?}", minlen);
}
