//! Diagnostic: list every vocabulary word whose accepted reading is not a documented segmentation.
use verif_harness::gen::words;
use verif_harness::props::c05::{fold, segmentations};
use verif_harness::props::common::mirror_json;
fn main() {
    verif_harness::runner::install_quiet_panic_hook();
    let w = words();
    let mut bad = 0;
    let mut rejected = 0;
    for wi in &w.all {
        let segs = segmentations(&wi.word.text, 400);
        let readings: std::collections::BTreeSet<_> = segs.iter().filter_map(|s| fold(&s.iter().map(|i| (i.clone(), 1)).collect::<Vec<_>>())).collect();
        match &wi.tool_reading {
            None => rejected += 1,
            Some(m) => {
                if !readings.contains(m) {
                    bad += 1;
                    println!("{} -> {:?}  valid: {:?}", wi.word.text, mirror_json(m), readings.iter().map(mirror_json).collect::<Vec<_>>());
                }
            }
        }
    }
    println!("words {} rejected {} misread {} unsafe {}", w.all.len(), rejected, bad, w.all.iter().filter(|x| !x.safe).count());
}
