//! Ad-hoc probe: parse each argument with str::parse::<Compound>() and print the outcome.
fn main() {
    for a in std::env::args().skip(1) {
        match a.parse::<anything::Compound>() {
            Ok(c) => println!("{:?} -> ok `{}`", a, c),
            Err(e) => println!("{:?} -> err {} @{:?}", a, e, e.range()),
        }
    }
}
