//! Ad-hoc probe: evaluate each argument as a query and print every result.
use anything::{parse, query, Db, Options};
use codespan_reporting::term::termcolor::{ColorChoice, StandardStream};

fn main() {
    let db = Db::in_memory().unwrap();
    let mut args: Vec<String> = std::env::args().skip(1).collect();
    let tree = if args.first().map(|s| s == "--tree").unwrap_or(false) { args.remove(0); true } else { false };
    for a in args {
        println!("== {:?}", a);
        let parsed = parse(&a).unwrap();
        if tree {
            let mut o = StandardStream::stdout(ColorChoice::Never);
            parsed.emit(&mut o).unwrap();
        }
        let mut d = Vec::new();
        for r in query(&parsed, &db, Options::default(), &mut d) {
            match r {
                Ok(n) => println!("  ok {}/{} [{}]", n.value.numer(), n.value.denom(), n.unit),
                Err(e) => println!("  err {} @{:?}", e, e.range()),
            }
        }
    }
}
