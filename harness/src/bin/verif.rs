//! verif <ID> --quick|--thorough [--replay <file>] [--strict]
use verif_harness::props;
use verif_harness::runner::{Ctx, Tier};

fn c11_main(_: &Ctx) {}

fn main() {
    let args: Vec<String> = std::env::args().skip(1).collect();
    if args.is_empty() {
        eprintln!("usage: verif <ID> --quick|--thorough [--replay <file>] [--strict]");
        std::process::exit(2);
    }
    let id = args[0].to_uppercase();
    let mut tier = match std::env::var("VERIF_TIER").ok().as_deref() {
        Some("thorough") => Tier::Thorough,
        _ => Tier::Quick,
    };
    let mut replay: Option<String> = None;
    let mut strict = false;
    let mut child = false;
    let mut i = 1;
    while i < args.len() {
        match args[i].as_str() {
            "--quick" => tier = Tier::Quick,
            "--thorough" => tier = Tier::Thorough,
            "--strict" => strict = true,
            "--child" => child = true,
            "--replay" => {
                i += 1;
                replay = args.get(i).cloned();
            }
            other => {
                eprintln!("unknown argument {}", other);
                std::process::exit(2);
            }
        }
        i += 1;
    }
    let seed: u64 = std::env::var("VERIF_SEED").ok().and_then(|s| s.trim().parse::<i128>().ok()).map(|v| v as u64).unwrap_or(1);
    let (prop, level, run, rep): (&'static str, &'static str, fn(&Ctx), fn(&Ctx, &serde_json::Value)) = match id.as_str() {
        "C01" => ("C01", "exploration", props::c01::run, props::c01::replay),
        "C12" => ("C12", "exploration", props::c12::run_check, props::c12::replay),
        "C02" => ("C02", "exploration", props::c02::run_check, props::c02::replay),
        "C03" => ("C03", "exploration", props::c03::run_check, props::c03::replay),
        "C04" => ("C04", "exploration", props::c04::run_check, props::c04::replay),
        "C05" => ("C05", "exploration", props::c05::run_check, props::c05::replay),
        "C06" => ("C06", "exploration", props::c06::run_check, props::c06::replay),
        "C08" => ("C08", "exploration", props::c08::run_check, props::c08::replay),
        "C09" => ("C09", "exploration", props::c09::run_check, props::c09::replay),
        "C13" => ("C13", "exploration", props::c13::run_check, props::c13::replay),
        "C16" => ("C16", "exploration", props::c16::run_check, props::c16::replay),
        "C17" => ("C17", "exploration", props::c17::run_check, props::c17::replay),
        "C18" => ("C18", "exploration", props::c18::run_check, props::c18::replay),
        "C19" => ("C19", "exploration", props::c19::run_check, props::c19::replay),
        "C11" => ("C11", "exploration", c11_main, props::c11::replay),
        "C14" => ("C14", "exploration", props::c14::run_check, props::c14::replay),
        "C15" => ("C15", "fault_enumeration", props::c15::run_check, props::c15::replay),
        "C10" => ("C10", "exploration", props::c10::run_check, props::c10::replay),
        "C07" => ("C07", "exploration", props::c07::run_check, props::c07::replay),
        _ => {
            eprintln!("unknown property {}", id);
            std::process::exit(2);
        }
    };
    let ctx = Ctx::new(prop, level, tier, seed, strict || replay.is_some());
    match replay {
        Some(path) => {
            let text = std::fs::read_to_string(&path).unwrap_or_else(|e| {
                eprintln!("cannot read {}: {}", path, e);
                std::process::exit(2)
            });
            let v: serde_json::Value = serde_json::from_str(&text).unwrap_or_else(|e| {
                eprintln!("cannot parse {}: {}", path, e);
                std::process::exit(2)
            });
            let case = if v.get("case").is_some() { v["case"].clone() } else { v };
            ctx.set_rule("replay of a saved case");
            rep(&ctx, &case);
            // a replay does not rewrite the evidence file
            let code = ctx.finish_replay();
            std::process::exit(code);
        }
        None => {
            if prop == "C11" {
                props::c11::run_check(&ctx, child);
                if child {
                    std::process::exit(ctx.finish_child());
                }
                // second profile: the release build of the same check, as a child process
                let rel = std::env::current_exe().unwrap().parent().unwrap().parent().unwrap().join("release").join("verif");
                ctx.merge_child(&rel, &["C11", if tier == Tier::Quick { "--quick" } else { "--thorough" }, "--child"]);
            } else {
                // a panic of the harness itself (outside the guarded calls into the code under test) must not end
                // the process silently with status 101: say where it happened; it is inconclusive, not a verdict
                if let Err(_) = std::panic::catch_unwind(std::panic::AssertUnwindSafe(|| run(&ctx))) {
                    // violations recorded before the harness fell over are still reported
                    if ctx.has_violations() {
                        std::process::exit(ctx.finish());
                    }
                    println!("INCONCLUSIVE property={} the harness panicked outside a guarded call: {}", prop, verif_harness::runner::last_panic().unwrap_or_default());
                    std::process::exit(2);
                }
            }
            std::process::exit(ctx.finish());
        }
    }
}
