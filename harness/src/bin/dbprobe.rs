//! Helper process for C14/C15/C19: opens the database (on disk under the
//! XDG_DATA_HOME given by the environment, or in memory) and answers the
//! queries of a file, one JSON line per query on stdout.
//!
//! dbprobe open|mem <queries-file>
use anything::{parse, query, Db, Description, Options};
use std::io::Write;

fn main() {
    let args: Vec<String> = std::env::args().collect();
    if args.len() < 3 {
        eprintln!("usage: dbprobe open|mem <queries-file>");
        std::process::exit(2);
    }
    let db = match args[1].as_str() {
        "open" => Db::open(),
        _ => Db::in_memory(),
    };
    let db = match db {
        Ok(db) => db,
        Err(e) => {
            println!("OPEN-FAILED {:#}", e);
            std::process::exit(3);
        }
    };
    let text = std::fs::read_to_string(&args[2]).expect("queries file");
    let out = std::io::stdout();
    let mut out = out.lock();
    for q in text.lines() {
        writeln!(out, "{}", verif_harness::probe::answer(&db, q)).unwrap();
    }
    let _ = (parse, query, Options::default(), |d: Description| d);
}
