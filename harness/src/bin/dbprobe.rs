//! Helper process for C14/C15/C19: opens the database (on disk under the
//! XDG_DATA_HOME given by the environment, or in memory) and answers the
//! queries of a file, one JSON line per query on stdout.
//!
//! dbprobe open|mem <queries-file>
//! dbprobe memx <queries-file> <threads>
//! dbprobe shared <queries-file> <threads>
use anything::{parse, query, Db, Description, Options};
use std::io::Write;

// One database shared by several threads that look things up at the same time — only when the type allows
// it: `Db` is `Sync` today, a change may make it not so (then this mode reports "unsupported" instead of
// failing to compile).  Autoref specialisation: the `Sync` impl is found first, the fallback otherwise.
struct Shared<'a, T>(&'a T);
trait ConcurrentIfSync<T> {
    fn concurrent(&self, threads: usize, queries: &[&str], f: &(dyn Fn(&T, &str) -> String + Sync)) -> Option<Vec<Vec<String>>>;
}
impl<'a, T: Sync> ConcurrentIfSync<T> for Shared<'a, T> {
    fn concurrent(&self, threads: usize, queries: &[&str], f: &(dyn Fn(&T, &str) -> String + Sync)) -> Option<Vec<Vec<String>>> {
        let db = self.0;
        let barrier = std::sync::Barrier::new(threads);
        Some(std::thread::scope(|s| {
            let hs: Vec<_> = (0..threads)
                .map(|t| {
                    let barrier = &barrier;
                    s.spawn(move || {
                        barrier.wait();
                        // every thread walks the query list from another starting point
                        let n = queries.len().max(1);
                        let mut out = vec![String::new(); queries.len()];
                        for k in 0..queries.len() {
                            let i = (k + t * n / threads) % n;
                            out[i] = f(db, queries[i]);
                        }
                        out
                    })
                })
                .collect();
            hs.into_iter().map(|h| h.join().unwrap_or_default()).collect()
        }))
    }
}
trait ConcurrentFallback<T> {
    fn concurrent(&self, _threads: usize, _queries: &[&str], _f: &(dyn Fn(&T, &str) -> String + Sync)) -> Option<Vec<Vec<String>>> {
        None
    }
}
impl<'a, T> ConcurrentFallback<T> for &Shared<'a, T> {}

fn main() {
    let args: Vec<String> = std::env::args().collect();
    if args.len() < 3 {
        eprintln!("usage: dbprobe open|mem <queries-file>");
        std::process::exit(2);
    }
    if args[1] == "memx" {
        // cold process, several sessions at once: N threads pass a barrier, each builds its own in-memory
        // database and answers every query; output = one block per thread, headed by `=== thread <i>`
        let n: usize = args.get(3).and_then(|s| s.parse().ok()).unwrap_or(4);
        let text = std::fs::read_to_string(&args[2]).expect("queries file");
        let barrier = std::sync::Barrier::new(n);
        let blocks: Vec<Result<Vec<String>, String>> = std::thread::scope(|s| {
            let hs: Vec<_> = (0..n)
                .map(|_| {
                    s.spawn(|| {
                        barrier.wait();
                        let db = Db::in_memory().map_err(|e| format!("{:#}", e))?;
                        Ok(text.lines().map(|q| verif_harness::probe::answer(&db, q)).collect())
                    })
                })
                .collect();
            hs.into_iter().map(|h| h.join().unwrap_or_else(|_| Err("thread panicked".to_string()))).collect()
        });
        let out = std::io::stdout();
        let mut out = out.lock();
        for (i, b) in blocks.iter().enumerate() {
            writeln!(out, "=== thread {}", i).unwrap();
            match b {
                Ok(lines) => {
                    for l in lines {
                        writeln!(out, "{}", l).unwrap();
                    }
                }
                Err(e) => writeln!(out, "OPEN-FAILED {}", e).unwrap(),
            }
        }
        return;
    }
    if args[1] == "shared" {
        let n: usize = args.get(3).and_then(|s| s.parse().ok()).unwrap_or(8);
        let text = std::fs::read_to_string(&args[2]).expect("queries file");
        let queries: Vec<&str> = text.lines().collect();
        let db = match Db::in_memory() {
            Ok(db) => db,
            Err(e) => {
                println!("OPEN-FAILED {:#}", e);
                std::process::exit(3);
            }
        };
        let blocks = (&Shared(&db)).concurrent(n, &queries, &|db: &Db, q: &str| verif_harness::probe::answer(db, q));
        let out = std::io::stdout();
        let mut out = out.lock();
        match blocks {
            None => writeln!(out, "UNSUPPORTED Db is not Sync").unwrap(),
            Some(blocks) => {
                for (i, b) in blocks.iter().enumerate() {
                    writeln!(out, "=== thread {}", i).unwrap();
                    for l in b {
                        writeln!(out, "{}", l).unwrap();
                    }
                }
            }
        }
        return;
    }
    let db = match args[1].as_str() {
        "open" => Db::open(),
        _ => Db::in_memory(),
    };
    let db = match db {
        Ok(db) => db,
        Err(e) => {
            println!("OPEN-FAILED {:#}", e);
            std::process::exit(3);
        }
    };
    let text = std::fs::read_to_string(&args[2]).expect("queries file");
    let out = std::io::stdout();
    let mut out = out.lock();
    for q in text.lines() {
        writeln!(out, "{}", verif_harness::probe::answer(&db, q)).unwrap();
    }
    let _ = (parse, query, Options::default(), |d: Description| d);
}
