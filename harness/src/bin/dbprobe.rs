fn main() {}
