fn main() {
    for a in std::env::args().skip(1) {
        let a = a.replace("\\t", "\t");
        println!("{:?} -> {:?}", a, verif_harness::props::c11::sanitize(&a));
    }
}
