//! Decimal reader and printed-text parser oracles (DESIGN 3.4), written from
//! the notation itself, not from the code under test.

use num::{BigInt, BigRational, Zero};

/// `sign? (digits+ ('.' digits*)? | '.' digits+) ([eE] sign? digits+)?` → exact value.
/// Returns None when the string is not a well-formed literal.
pub fn parse_decimal(s: &str) -> Option<BigRational> {
    let b = s.as_bytes();
    let mut i = 0;
    let mut neg = false;
    if i < b.len() && (b[i] == b'-' || b[i] == b'+') {
        neg = b[i] == b'-';
        i += 1;
    }
    let int_start = i;
    while i < b.len() && b[i].is_ascii_digit() {
        i += 1;
    }
    let int_digits = &s[int_start..i];
    let mut frac_digits = "";
    if i < b.len() && b[i] == b'.' {
        i += 1;
        let fs = i;
        while i < b.len() && b[i].is_ascii_digit() {
            i += 1;
        }
        frac_digits = &s[fs..i];
    }
    if int_digits.is_empty() && frac_digits.is_empty() {
        return None;
    }
    let mut exp: i64 = 0;
    if i < b.len() && (b[i] == b'e' || b[i] == b'E') {
        i += 1;
        let mut eneg = false;
        if i < b.len() && (b[i] == b'-' || b[i] == b'+') {
            eneg = b[i] == b'-';
            i += 1;
        }
        let es = i;
        while i < b.len() && b[i].is_ascii_digit() {
            i += 1;
        }
        if es == i {
            return None;
        }
        exp = s[es..i].parse::<i64>().ok()?;
        if eneg {
            exp = -exp;
        }
    }
    if i != b.len() {
        return None;
    }
    let digits = format!("{}{}", int_digits, frac_digits);
    let mant: BigInt = digits.parse().ok()?;
    let e = exp - frac_digits.len() as i64;
    let ten = BigInt::from(10);
    let mut v = if e >= 0 {
        BigRational::from_integer(mant * num::pow(ten, e as usize))
    } else {
        // mant / 10^k in lowest terms without a general gcd (the library gcd is quadratic for a small
        // numerator over a 10^5-digit denominator): only the factors 2 and 5 can cancel
        let k = (-e) as u64;
        if mant.is_zero() {
            BigRational::from_integer(BigInt::from(0))
        } else {
            let mut m = mant;
            let twos = m.trailing_zeros().unwrap_or(0).min(k);
            m >>= twos as usize;
            let five = BigInt::from(5);
            let mut fives = 0u64;
            while fives < k && (&m % &five).is_zero() {
                m /= &five;
                fives += 1;
            }
            let den = num::pow(BigInt::from(2), (k - twos) as usize) * num::pow(five, (k - fives) as usize);
            BigRational::new_raw(m, den)
        }
    };
    if neg {
        v = -v;
    }
    Some(v)
}

/// Literal with optional trailing `%`.
pub fn parse_literal(s: &str) -> Option<BigRational> {
    match s.strip_suffix('%') {
        Some(body) => parse_decimal(body).map(|v| v / BigRational::from_integer(BigInt::from(100))),
        None => parse_decimal(s),
    }
}

/// Printed number: `-?digits[.digits][…][e-?N]`.
#[derive(Debug, Clone)]
pub struct Printed {
    pub neg: bool,
    /// All printed mantissa digits as an integer.
    pub mant: BigInt,
    /// Digits after the point.
    pub k: i64,
    pub exp: i64,
    pub mark: bool,
    /// number of mantissa digits printed
    pub ndigits: usize,
}

pub fn parse_printed(s: &str) -> Option<Printed> {
    let mut rest = s;
    let neg = if let Some(r) = rest.strip_prefix('-') {
        rest = r;
        true
    } else {
        false
    };
    let ip: String = rest.chars().take_while(|c| c.is_ascii_digit()).collect();
    if ip.is_empty() {
        return None;
    }
    rest = &rest[ip.len()..];
    let mut fp = String::new();
    if let Some(r) = rest.strip_prefix('.') {
        fp = r.chars().take_while(|c| c.is_ascii_digit()).collect();
        if fp.is_empty() {
            return None;
        }
        rest = &r[fp.len()..];
    }
    let mark = if let Some(r) = rest.strip_prefix('…') {
        rest = r;
        true
    } else {
        false
    };
    let mut exp = 0i64;
    if let Some(r) = rest.strip_prefix('e') {
        exp = r.parse::<i64>().ok()?;
        rest = "";
    }
    if !rest.is_empty() {
        return None;
    }
    let digits = format!("{}{}", ip, fp);
    Some(Printed { neg, mant: digits.parse().ok()?, k: fp.len() as i64, exp, mark, ndigits: digits.len() })
}

impl Printed {
    /// |P| = mant · 10^(exp − k)
    pub fn abs_value(&self) -> BigRational {
        crate::tool::pow10(self.exp - self.k) * BigRational::from_integer(self.mant.clone())
    }
    /// One unit in the last printed place: 10^(exp − k).
    pub fn ulp(&self) -> BigRational {
        crate::tool::pow10(self.exp - self.k)
    }
    pub fn is_zero(&self) -> bool {
        self.mant.is_zero()
    }
}
