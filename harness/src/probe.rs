//! One canonical textual answer per query (used in-process and by dbprobe).
use anything::{parse, query, Db, Description, Options};

/// The outcome of a lookup-style query as one line: the constant used
/// (description, value, unit, source) via Options::describe, or the error.
pub fn answer(db: &Db, q: &str) -> String {
    let r = std::panic::catch_unwind(std::panic::AssertUnwindSafe(|| {
        let parsed = match parse(q) {
            Ok(p) => p,
            Err(e) => return format!("PARSE-ERROR {}", e),
        };
        let mut descs = Vec::new();
        let results: Vec<String> = query(&parsed, db, Options::default().describe(), &mut descs)
            .map(|r| match r {
                Ok(n) => format!("OK {}/{} [{}]", n.value.numer(), n.value.denom(), n.unit),
                Err(e) => format!("ERR {}", e),
            })
            .collect();
        let ds: Vec<String> = descs
            .into_iter()
            .map(|d| match d {
                Description::Constant(p, c) => {
                    // the source as the session resolves it (part of "decodes completely")
                    let src = c.source.map(|id| match db.get_source(id) {
                        Some(s) => format!("{}<{}>", s.description, s.url.as_deref().unwrap_or("")),
                        None => "UNRESOLVED".to_string(),
                    });
                    format!("{:?}=>{}|{}/{}|{}|{:?}|{:?}|{:?}", p, c.description, c.value.numer(), c.value.denom(), c.unit, c.source, c.tokens, src)
                }
                #[allow(unreachable_patterns)]
                _ => "<a description that is not a looked-up constant>".to_string(),
            })
            .collect();
        format!("{} ## {}", results.join(" ; "), ds.join(" ; "))
    }));
    match r {
        Ok(s) => s.replace('\n', " "),
        Err(_) => "PANIC".to_string(),
    }
}
