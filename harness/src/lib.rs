pub mod ast;
pub mod decimal;
pub mod facts;
pub mod gen;
pub mod runner;
pub mod tool;
pub mod units_ref;
pub mod props;
