//! Unit reference (DESIGN 3.2): names from tools/gen/data.toml (the
//! repository's documentation of the vocabulary), meanings from a hand-written
//! standards table that is NOT derived from the code under test.

use crate::decimal::parse_decimal;
use crate::tool::{pow10, rpow, Mirror, UKey};
use num::{BigInt, BigRational, One, Zero};
use std::collections::BTreeMap;
use std::sync::OnceLock;

/// Base dimension order: kg m s A K mol cd B.
pub type Dim = [i32; 8];
pub const DIM_NAMES: [&str; 8] = ["kg", "m", "s", "A", "K", "mol", "cd", "B"];
pub const BASE_VARIANTS: [&str; 8] = ["KiloGram", "Meter", "Second", "Ampere", "Kelvin", "Mole", "Candela", "Byte"];
pub const ZERO_DIM: Dim = [0; 8];

pub fn dim_add(a: &Dim, b: &Dim, n: i32) -> Dim {
    let mut o = *a;
    for i in 0..8 {
        o[i] += b[i] * n;
    }
    o
}

pub fn dim_scale(a: &Dim, n: i32) -> Dim {
    let mut o = *a;
    for x in o.iter_mut() {
        *x *= n;
    }
    o
}

/// SI spelling of a dimension in base units, e.g. `kg*m^2*s^-3`; "" if zero.
pub fn dim_spelling(d: &Dim) -> String {
    let mut parts = Vec::new();
    for i in 0..8 {
        if d[i] != 0 {
            if d[i] == 1 {
                parts.push(DIM_NAMES[i].to_string());
            } else {
                parts.push(format!("{}^{}", DIM_NAMES[i], d[i]));
            }
        }
    }
    parts.join("*")
}

#[derive(Clone, Debug)]
pub struct UnitDef {
    /// Variant name in data.toml ("Meter", "Newton", ...).
    pub variant: String,
    /// data.toml: "base" or "derived".
    pub is_base: bool,
    /// For base entries the `unit = "..."` variant of `anything::Unit`.
    pub base_unit: Option<String>,
    /// data.toml id of a derived unit.
    pub id: Option<u32>,
    /// data.toml `name = "time::MINUTE"` path of the static.
    pub static_path: Option<String>,
    /// All names (data.toml).
    pub names: Vec<String>,
    /// Prefix bias of the word (gram: -3).
    pub bias: i32,
    /// Reference dimension.
    pub dim: Dim,
    /// Accepted exact scales in SI base units (hand-written table).
    pub scales: Vec<BigRational>,
    /// Canonical probe name.
    pub probe: String,
    /// Affine scale (celsius / fahrenheit): judged by C09 only.
    pub offset: bool,
}

impl UnitDef {
    pub fn key(&self) -> UKey {
        match (&self.base_unit, self.id) {
            (Some(b), _) => UKey::Base(b.clone()),
            (None, Some(id)) => UKey::Derived(id),
            _ => unreachable!(),
        }
    }
}

#[derive(Clone, Debug)]
pub struct PrefixDef {
    pub variant: String,
    pub names: Vec<String>,
    pub exp: i32,
}

pub struct Vocab {
    pub units: Vec<UnitDef>,
    pub prefixes: Vec<PrefixDef>,
    pub by_key: BTreeMap<UKey, usize>,
    pub by_variant: BTreeMap<String, usize>,
}

/// Hand-written standards table: variant, probe name, dimension, accepted scales.
/// Sources: SI brochure 9th ed. (incl. Table 8), 1959 international yard and
/// pound agreement, NIST Handbook 44 (US customary), CODATA, IAU 2012.
/// A scale is written as a decimal (optionally with e-notation) or `p/q`.
const TABLE: &[(&str, &str, Dim, &[&str])] = &[
    //                       kg  m  s  A  K mol cd B
    ("Second", "s", [0, 0, 1, 0, 0, 0, 0, 0], &["1"]),
    ("Meter", "m", [0, 1, 0, 0, 0, 0, 0, 0], &["1"]),
    ("Gram", "g", [1, 0, 0, 0, 0, 0, 0, 0], &["0.001"]),
    ("Ampere", "A", [0, 0, 0, 1, 0, 0, 0, 0], &["1"]),
    ("Kelvin", "K", [0, 0, 0, 0, 1, 0, 0, 0], &["1"]),
    ("Mole", "mol", [0, 0, 0, 0, 0, 1, 0, 0], &["1"]),
    ("Candela", "cd", [0, 0, 0, 0, 0, 0, 1, 0], &["1"]),
    ("Byte", "B", [0, 0, 0, 0, 0, 0, 0, 1], &["1"]),
    ("Minute", "min", [0, 0, 1, 0, 0, 0, 0, 0], &["60"]),
    ("Hour", "hr", [0, 0, 1, 0, 0, 0, 0, 0], &["3600"]),
    ("Day", "dy", [0, 0, 1, 0, 0, 0, 0, 0], &["86400"]),
    ("Week", "wk", [0, 0, 1, 0, 0, 0, 0, 0], &["604800"]),
    ("Month", "mth", [0, 0, 1, 0, 0, 0, 0, 0], &["2629800", "2629746", "2628000", "2592000"]),
    ("Year", "yr", [0, 0, 1, 0, 0, 0, 0, 0], &["31557600", "31556952", "31536000"]),
    ("Decade", "decade", [0, 0, 1, 0, 0, 0, 0, 0], &["315576000", "315569520", "315360000"]),
    ("Century", "century", [0, 0, 1, 0, 0, 0, 0, 0], &["3155760000", "3155695200", "3153600000"]),
    ("Millenium", "millenium", [0, 0, 1, 0, 0, 0, 0, 0], &["31557600000", "31556952000", "31536000000"]),
    ("Tonne", "tonne", [1, 0, 0, 0, 0, 0, 0, 0], &["1000", "907.18474", "1016.0469088"]),
    ("Dalton", "Da", [1, 0, 0, 0, 0, 0, 0, 0], &["1.66053906660e-27", "1.660539040e-27", "1.66053906892e-27"]),
    ("Litre", "l", [0, 3, 0, 0, 0, 0, 0, 0], &["0.001"]),
    ("CubicCentimetre", "cc", [0, 3, 0, 0, 0, 0, 0, 0], &["0.000001"]),
    ("Gallon", "gal", [0, 3, 0, 0, 0, 0, 0, 0], &["0.003785411784", "0.00454609"]),
    ("Pint", "pint", [0, 3, 0, 0, 0, 0, 0, 0], &["0.000473176473", "0.00056826125", "0.0005506104713575"]),
    ("Quart", "quart", [0, 3, 0, 0, 0, 0, 0, 0], &["0.000946352946", "0.0011365225"]),
    ("Cup", "cup", [0, 3, 0, 0, 0, 0, 0, 0], &["0.0002365882365", "0.00024", "0.00025"]),
    ("Gill", "gill", [0, 3, 0, 0, 0, 0, 0, 0], &["0.00011829411825", "0.0001420653125"]),
    ("FuildOunce", "floz", [0, 3, 0, 0, 0, 0, 0, 0], &["0.0000295735295625", "0.0000284130625"]),
    ("TableSpoon", "tbsp", [0, 3, 0, 0, 0, 0, 0, 0], &["0.00001478676478125", "0.000015"]),
    ("TeaSpoon", "tsp", [0, 3, 0, 0, 0, 0, 0, 0], &["0.00000492892159375", "0.000005"]),
    ("Hectare", "ha", [0, 2, 0, 0, 0, 0, 0, 0], &["10000"]),
    ("Perch", "perch", [0, 2, 0, 0, 0, 0, 0, 0], &["25.29285264"]),
    ("Rood", "rood", [0, 2, 0, 0, 0, 0, 0, 0], &["1011.7141056"]),
    ("Acre", "acre", [0, 2, 0, 0, 0, 0, 0, 0], &["4046.8564224"]),
    ("Acceleration", "acc", [0, 1, -2, 0, 0, 0, 0, 0], &["1"]),
    ("Velocity", "vel", [0, 1, -1, 0, 0, 0, 0, 0], &["1"]),
    ("Gforce", "gforce", [0, 1, -2, 0, 0, 0, 0, 0], &["9.80665"]),
    ("Newton", "N", [1, 1, -2, 0, 0, 0, 0, 0], &["1"]),
    ("Pascal", "Pa", [1, -1, -2, 0, 0, 0, 0, 0], &["1"]),
    ("Joule", "J", [1, 2, -2, 0, 0, 0, 0, 0], &["1"]),
    ("Btu", "btu", [1, 2, -2, 0, 0, 0, 0, 0], &["1055", "1055.05585262", "1054.3503", "1055.06", "1055.87", "1054.68", "1059.67"]),
    ("Electronvolt", "eV", [1, 2, -2, 0, 0, 0, 0, 0], &["1.602176634e-19"]),
    ("Watt", "W", [1, 2, -3, 0, 0, 0, 0, 0], &["1"]),
    ("Coulomb", "C", [0, 0, 1, 1, 0, 0, 0, 0], &["1"]),
    ("Volt", "V", [1, 2, -3, -1, 0, 0, 0, 0], &["1"]),
    ("Farad", "F", [-1, -2, 4, 2, 0, 0, 0, 0], &["1"]),
    ("Ohm", "ohm", [1, 2, -3, -2, 0, 0, 0, 0], &["1"]),
    ("Siemens", "S", [-1, -2, 3, 2, 0, 0, 0, 0], &["1"]),
    ("Weber", "Wb", [1, 2, -2, -1, 0, 0, 0, 0], &["1"]),
    ("Tesla", "T", [1, 0, -2, -1, 0, 0, 0, 0], &["1"]),
    ("Henry", "H", [1, 2, -2, -2, 0, 0, 0, 0], &["1"]),
    ("Lumen", "lm", [0, 0, 0, 0, 0, 0, 1, 0], &["1"]),
    ("Lux", "lx", [0, -2, 0, 0, 0, 0, 1, 0], &["1"]),
    ("Becquerel", "Bq", [0, 0, -1, 0, 0, 0, 0, 0], &["1"]),
    ("Gray", "Gy", [0, 2, -2, 0, 0, 0, 0, 0], &["1"]),
    ("Sievert", "Sv", [0, 2, -2, 0, 0, 0, 0, 0], &["1"]),
    ("Katal", "kat", [0, 0, -1, 0, 0, 1, 0, 0], &["1"]),
    ("LightSpeed", "c", [0, 1, -1, 0, 0, 0, 0, 0], &["299792458"]),
    ("Knot", "kt", [0, 1, -1, 0, 0, 0, 0, 0], &["463/900"]),
    ("Au", "au", [0, 1, 0, 0, 0, 0, 0, 0], &["149597870700"]),
    ("Fathom", "ftm", [0, 1, 0, 0, 0, 0, 0, 0], &["1.8288", "1.852", "1.853184"]),
    ("Cable", "cable", [0, 1, 0, 0, 0, 0, 0, 0], &["185.2", "219.456", "185.3184"]),
    ("NauticalMile", "NM", [0, 1, 0, 0, 0, 0, 0, 0], &["1852"]),
    ("Link", "link", [0, 1, 0, 0, 0, 0, 0, 0], &["0.201168"]),
    ("Rod", "rod", [0, 1, 0, 0, 0, 0, 0, 0], &["5.0292"]),
    ("Thou", "thou", [0, 1, 0, 0, 0, 0, 0, 0], &["0.0000254"]),
    ("Barleycorn", "Bc", [0, 1, 0, 0, 0, 0, 0, 0], &["127/15000"]),
    ("Inch", "in", [0, 1, 0, 0, 0, 0, 0, 0], &["0.0254"]),
    ("Hand", "hand", [0, 1, 0, 0, 0, 0, 0, 0], &["0.1016"]),
    ("Feet", "ft", [0, 1, 0, 0, 0, 0, 0, 0], &["0.3048"]),
    ("Yard", "yd", [0, 1, 0, 0, 0, 0, 0, 0], &["0.9144"]),
    ("Chain", "chain", [0, 1, 0, 0, 0, 0, 0, 0], &["20.1168"]),
    ("Furlong", "fur", [0, 1, 0, 0, 0, 0, 0, 0], &["201.168"]),
    ("Mile", "mi", [0, 1, 0, 0, 0, 0, 0, 0], &["1609.344"]),
    ("League", "lea", [0, 1, 0, 0, 0, 0, 0, 0], &["4828.032"]),
    ("Grain", "grain", [1, 0, 0, 0, 0, 0, 0, 0], &["0.00006479891"]),
    ("Drachm", "dr", [1, 0, 0, 0, 0, 0, 0, 0], &["0.0017718451953125", "0.0038879346"]),
    ("Ounce", "oz", [1, 0, 0, 0, 0, 0, 0, 0], &["0.028349523125"]),
    ("Pound", "lb", [1, 0, 0, 0, 0, 0, 0, 0], &["0.45359237"]),
    ("Stone", "stone", [1, 0, 0, 0, 0, 0, 0, 0], &["6.35029318"]),
    ("Quarter", "qr", [1, 0, 0, 0, 0, 0, 0, 0], &["12.70058636", "11.33980925"]),
    ("Hundredweight", "cwt", [1, 0, 0, 0, 0, 0, 0, 0], &["50.80234544", "45.359237"]),
    ("ImperialTon", "t", [1, 0, 0, 0, 0, 0, 0, 0], &["1016.0469088"]),
    ("Slug", "slug", [1, 0, 0, 0, 0, 0, 0, 0], &["8896443230521/609600000000", "14.59390294", "14.5939"]),
    ("SpecificImpulse", "sp", [0, 0, 1, 0, 0, 0, 0, 0], &["1"]),
    // affine scales: dimension K; degree size as interval (C09 judges the offsets)
    ("Celsius", "celsius", [0, 0, 0, 0, 1, 0, 0, 0], &["1"]),
    ("Fahrenheit", "fahrenheit", [0, 0, 0, 0, 1, 0, 0, 0], &["5/9"]),
];

pub fn parse_scale(s: &str) -> BigRational {
    if let Some((a, b)) = s.split_once('/') {
        BigRational::new(a.parse::<BigInt>().unwrap(), b.parse::<BigInt>().unwrap())
    } else {
        parse_decimal(s).expect("table scale parses")
    }
}

pub fn prefix_exp(variant: &str) -> i32 {
    // SI brochure table 7
    match variant {
        "Yotta" => 24,
        "Zetta" => 21,
        "Exa" => 18,
        "Peta" => 15,
        "Tera" => 12,
        "Giga" => 9,
        "Mega" => 6,
        "Kilo" => 3,
        "Hecto" => 2,
        "Deca" => 1,
        "Deci" => -1,
        "Centi" => -2,
        "Milli" => -3,
        "Micro" => -6,
        "Nano" => -9,
        "Pico" => -12,
        "Femto" => -15,
        "Atto" => -18,
        "Zepto" => -21,
        "Yocto" => -24,
        other => panic!("unknown prefix variant {} in data.toml", other),
    }
}

pub fn vocab() -> &'static Vocab {
    static V: OnceLock<Vocab> = OnceLock::new();
    V.get_or_init(load_vocab)
}

fn load_vocab() -> Vocab {
    let text = std::fs::read_to_string(format!("{}/tools/gen/data.toml", crate::runner::repo_root())).expect("data.toml readable");
    let doc: toml::Value = text.parse().expect("data.toml parses");
    let mut units = Vec::new();
    let table: BTreeMap<&str, (&str, Dim, &[&str])> = TABLE.iter().map(|(v, p, d, s)| (*v, (*p, *d, *s))).collect();
    for u in doc.get("units").and_then(|u| u.as_array()).expect("units") {
        let variant = u["variant"].as_str().unwrap().to_string();
        let is_base = u["type"].as_str().unwrap() == "base";
        let names: Vec<String> = u["names"].as_array().unwrap().iter().map(|n| n.as_str().unwrap().to_string()).collect();
        let id = u.get("id").and_then(|i| i.as_str()).map(|s| u32::from_str_radix(s.trim_start_matches("0x"), 16).unwrap());
        let bias = u.get("prefix_bias").and_then(|b| b.as_integer()).unwrap_or(0) as i32;
        let (probe, dim, scales) = match table.get(variant.as_str()) {
            Some(t) => *t,
            None => panic!("unit variant {} of data.toml is missing from the standards table", variant),
        };
        units.push(UnitDef {
            offset: variant == "Celsius" || variant == "Fahrenheit",
            variant,
            is_base,
            base_unit: u.get("unit").and_then(|b| b.as_str()).map(|s| s.to_string()),
            id,
            static_path: u.get("name").and_then(|b| b.as_str()).map(|s| s.to_string()),
            names,
            bias,
            dim,
            scales: scales.iter().map(|s| parse_scale(s)).collect(),
            probe: probe.to_string(),
        });
    }
    let mut prefixes = Vec::new();
    for p in doc.get("prefixes").and_then(|u| u.as_array()).expect("prefixes") {
        let variant = p["variant"].as_str().unwrap().to_string();
        let names = p["names"].as_array().unwrap().iter().map(|n| n.as_str().unwrap().to_string()).collect();
        let exp = prefix_exp(&variant);
        prefixes.push(PrefixDef { variant, names, exp });
    }
    let by_key = units.iter().enumerate().map(|(i, u)| (u.key(), i)).collect();
    let by_variant = units.iter().enumerate().map(|(i, u)| (u.variant.clone(), i)).collect();
    Vocab { units, prefixes, by_key, by_variant }
}

impl Vocab {
    pub fn unit(&self, variant: &str) -> &UnitDef {
        &self.units[self.by_variant[variant]]
    }
    pub fn by_key(&self, k: &UKey) -> Option<&UnitDef> {
        self.by_key.get(k).map(|i| &self.units[*i])
    }
    /// Proportional (non-offset) units.
    pub fn proportional(&self) -> Vec<&UnitDef> {
        self.units.iter().filter(|u| !u.offset).collect()
    }
}

/// Is this word made only of characters the query lexer treats as word characters?
pub fn typable_word(w: &str) -> bool {
    !w.is_empty() && w.chars().all(|c| c.is_ascii_alphanumeric() || c == '°' || c == '\'')
}

/// A per-unit scale table (either the reference's first scale, or the tool's
/// observed factor) used to compute SI values of mirrored compounds.
pub type ScaleTable = BTreeMap<UKey, BigRational>;

/// Reference dimension of a mirrored compound; None if a unit is unknown.
pub fn mirror_dim(m: &Mirror) -> Option<Dim> {
    let v = vocab();
    let mut d = ZERO_DIM;
    for (k, (p, _)) in m {
        let u = v.by_key(k)?;
        d = dim_add(&d, &u.dim, *p);
    }
    Some(d)
}

/// SI scale of a mirrored compound: Π (10^prefix · scale(unit))^power.
/// The stored prefix of a kilogram entry is relative to kg.
pub fn mirror_scale(m: &Mirror, scales: &ScaleTable) -> Option<BigRational> {
    let mut s = BigRational::one();
    for (k, (p, pre)) in m {
        let base = scales.get(k)?;
        let one = &pow10(*pre as i64) * base;
        s *= rpow(&one, *p as i64)?;
    }
    Some(s)
}

/// Scale table where base units are 1 and derived units carry `f(def)`.
pub fn scale_table(mut f: impl FnMut(&UnitDef) -> Option<BigRational>) -> ScaleTable {
    let v = vocab();
    let mut t = ScaleTable::new();
    for u in &v.units {
        if u.is_base {
            // the mirror's key for gram/kilogram is KiloGram with scale 1
            t.insert(u.key(), BigRational::one());
        } else if let Some(s) = f(u) {
            t.insert(u.key(), s);
        }
    }
    t
}

pub fn is_zero_dim(d: &Dim) -> bool {
    d.iter().all(|x| x.is_zero())
}
