//! Check runner: sharded proptest / enumeration drivers, statistics, known
//! findings, replay files, evidence, watchdog and exit codes.
//!
//! A run is a pure function of (tree, VERIF_SEED, tier): every random choice
//! comes from proptest strategies seeded from `derive_seed`.

use proptest::strategy::{Strategy, ValueTree};
use proptest::test_runner::{Config, RngAlgorithm, RngSeed, TestCaseError, TestError, TestRunner};
use serde_json::{json, Value};
use std::cell::RefCell;
use std::collections::{BTreeMap, HashSet};
use std::hash::{Hash, Hasher};
use std::sync::atomic::{AtomicBool, AtomicU64, Ordering};
use std::sync::Mutex;
use std::time::Instant;

/// Root of the verification tree (`/verif`; `VERIF_ROOT` overrides it for scratch copies used in sensitivity runs).
pub fn verif_root() -> &'static str {
    static R: std::sync::OnceLock<String> = std::sync::OnceLock::new();
    R.get_or_init(|| std::env::var("VERIF_ROOT").ok().filter(|s| !s.is_empty()).unwrap_or_else(|| "/verif".to_string()))
}
/// Root of the repository under test (`/repo`; `VERIF_REPO` overrides it for scratch worktrees used in sensitivity runs).
pub fn repo_root() -> &'static str {
    static R: std::sync::OnceLock<String> = std::sync::OnceLock::new();
    R.get_or_init(|| std::env::var("VERIF_REPO").ok().filter(|s| !s.is_empty()).unwrap_or_else(|| "/repo".to_string()))
}

#[derive(Clone, Copy, PartialEq, Eq, Debug)]
pub enum Tier {
    Quick,
    Thorough,
}

impl Tier {
    pub fn name(self) -> &'static str {
        match self {
            Tier::Quick => "quick",
            Tier::Thorough => "thorough",
        }
    }
    pub fn pick<T>(self, q: T, t: T) -> T {
        match self {
            Tier::Quick => q,
            Tier::Thorough => t,
        }
    }
}

/// What one executed case reports back.
pub struct CaseReport {
    /// Distinctness key (normally the query text or the history).
    pub key: String,
    /// Non-trivial by the property's stated rule?
    pub nontrivial: bool,
    /// Class labels for the distribution histogram.
    pub classes: Vec<&'static str>,
    pub verdict: Verdict,
}

pub enum Verdict {
    Pass,
    /// Case is outside what the property judges (counted, never an alarm).
    Discard(&'static str),
    /// Oracle disagreed. `sig` is the failure signature used for known findings.
    Fail { sig: String, detail: Value },
}

impl CaseReport {
    pub fn pass(key: impl Into<String>, nontrivial: bool, classes: Vec<&'static str>) -> Self {
        Self { key: key.into(), nontrivial, classes, verdict: Verdict::Pass }
    }
    pub fn discard(key: impl Into<String>, why: &'static str) -> Self {
        Self { key: key.into(), nontrivial: false, classes: vec![], verdict: Verdict::Discard(why) }
    }
    pub fn fail(key: impl Into<String>, sig: impl Into<String>, detail: Value) -> Self {
        Self {
            key: key.into(),
            nontrivial: true,
            classes: vec![],
            verdict: Verdict::Fail { sig: sig.into(), detail },
        }
    }
    pub fn with(mut self, nontrivial: bool, classes: Vec<&'static str>) -> Self {
        self.nontrivial = nontrivial;
        self.classes = classes;
        self
    }
}

#[derive(Default)]
pub struct Stats {
    pub evaluations: u64,
    pub nontrivial: HashSet<u64>,
    /// Non-trivial cases that are distinct by construction (exhaustive
    /// enumerations pass an empty key and are counted without hashing).
    pub nontrivial_counted: u64,
    pub classes: BTreeMap<String, u64>,
    pub discarded: BTreeMap<String, u64>,
    pub excluded_known: BTreeMap<String, u64>,
    pub samples: Vec<Value>,
    pub sub: BTreeMap<String, u64>,
}

impl Stats {
    fn merge(&mut self, o: Stats) {
        self.evaluations += o.evaluations;
        self.nontrivial.extend(o.nontrivial);
        self.nontrivial_counted += o.nontrivial_counted;
        for (k, v) in o.classes {
            *self.classes.entry(k).or_default() += v;
        }
        for (k, v) in o.discarded {
            *self.discarded.entry(k).or_default() += v;
        }
        for (k, v) in o.excluded_known {
            *self.excluded_known.entry(k).or_default() += v;
        }
        for (k, v) in o.sub {
            *self.sub.entry(k).or_default() += v;
        }
        for s in o.samples {
            if self.samples.len() < 12 {
                self.samples.push(s);
            }
        }
    }
}

#[derive(Clone, Debug, serde::Deserialize)]
pub struct Finding {
    pub property: String,
    pub status: String,
    #[serde(default)]
    pub signature: String,
    /// Further signatures with the same root cause.
    #[serde(default)]
    pub signatures: Vec<String>,
    pub what: String,
    #[serde(default)]
    pub input: Value,
    #[serde(default)]
    pub commit: Option<String>,
}

impl Finding {
    pub fn matches(&self, sig: &str) -> bool {
        self.signature == sig || self.signatures.iter().any(|s| s == sig)
    }
}

pub struct Violation {
    pub sig: String,
    pub replay: String,
}

pub struct Ctx {
    pub prop: &'static str,
    pub level: &'static str,
    pub tier: Tier,
    pub seed: u64,
    pub strict: bool,
    pub threads: usize,
    start: Instant,
    pub stats: Mutex<Stats>,
    pub violations: Mutex<Vec<Violation>>,
    pub known_open: Vec<Finding>,
    pub extra: Mutex<BTreeMap<String, Value>>,
    pub assumptions: Mutex<Vec<String>>,
    pub rule: Mutex<String>,
    pub exhaustive: AtomicBool,
    pub inconclusive: Mutex<Vec<String>>,
}

pub fn fnv(s: &str) -> u64 {
    let mut h = 0xcbf29ce484222325u64;
    for b in s.as_bytes() {
        h ^= *b as u64;
        h = h.wrapping_mul(0x100000001b3);
    }
    h
}

fn hash_key(s: &str) -> u64 {
    let mut h = std::collections::hash_map::DefaultHasher::new();
    s.hash(&mut h);
    h.finish()
}

pub fn derive_seed(seed: u64, prop: &str, sub: &str, shard: usize) -> u64 {
    let mut x = seed ^ fnv(prop).rotate_left(17) ^ fnv(sub).rotate_left(41) ^ (shard as u64).wrapping_mul(0x9E3779B97F4A7C15);
    // splitmix finaliser
    x = x.wrapping_add(0x9E3779B97F4A7C15);
    x = (x ^ (x >> 30)).wrapping_mul(0xBF58476D1CE4E5B9);
    x = (x ^ (x >> 27)).wrapping_mul(0x94D049BB133111EB);
    x ^ (x >> 31)
}

// ---------------------------------------------------------------- watchdog

const SLOTS: usize = 64;
#[allow(clippy::declare_interior_mutable_const)]
const EMPTY_SLOT: Mutex<Option<(Instant, String)>> = Mutex::new(None);
static WATCH: [Mutex<Option<(Instant, String)>>; SLOTS] = [EMPTY_SLOT; SLOTS];
static WATCH_LIMIT_MS: AtomicU64 = AtomicU64::new(30_000);
thread_local! {
    static SLOT: std::cell::Cell<usize> = std::cell::Cell::new(usize::MAX);
}
static NEXT_SLOT: AtomicU64 = AtomicU64::new(0);

fn my_slot() -> usize {
    SLOT.with(|s| {
        if s.get() == usize::MAX {
            s.set((NEXT_SLOT.fetch_add(1, Ordering::SeqCst) as usize) % SLOTS);
        }
        s.get()
    })
}

/// Mark the start of a potentially long call into the code under test.
pub fn watch_begin(input: &str) {
    let mut w = WATCH[my_slot()].lock().unwrap();
    match w.as_mut() {
        Some((t, s)) => {
            *t = Instant::now();
            s.clear();
            s.push_str(input);
        }
        None => *w = Some((Instant::now(), input.to_string())),
    }
}

pub fn watch_end() {
    // keep the allocation, mark idle by an empty-string sentinel with a far-future start
    let mut w = WATCH[my_slot()].lock().unwrap();
    if let Some((_, s)) = w.as_mut() {
        s.clear();
        s.push('\u{0}');
    }
}

fn start_watchdog(prop: &'static str) {
    std::thread::spawn(move || loop {
        std::thread::sleep(std::time::Duration::from_millis(500));
        let limit = WATCH_LIMIT_MS.load(Ordering::Relaxed);
        let mut hung = None;
        for slot in WATCH.iter() {
            let w = slot.lock().unwrap();
            if let Some((t, s)) = w.as_ref() {
                if s != "\u{0}" && t.elapsed().as_millis() as u64 > limit {
                    hung = Some(s.clone());
                    break;
                }
            }
        }
        if let Some(input) = hung {
            let dir = format!("{}/replays/{}", verif_root(), prop);
            let _ = std::fs::create_dir_all(&dir);
            let path = format!("{}/hang-{:016x}.json", dir, fnv(&input));
            let _ = std::fs::write(&path, serde_json::to_string_pretty(&json!({"property": prop, "kind": "watchdog", "input": input})).unwrap());
            println!("INCONCLUSIVE property={} watchdog: a case exceeded {} ms; input saved to {}", prop, limit, path);
            std::process::exit(2);
        }
    });
}

// ---------------------------------------------------------------- context

impl Ctx {
    pub fn new(prop: &'static str, level: &'static str, tier: Tier, seed: u64, strict: bool) -> Self {
        let known_open = load_findings().into_iter().filter(|f| f.property == prop && f.status == "open").collect();
        let threads = std::env::var("VERIF_THREADS").ok().and_then(|s| s.parse().ok()).unwrap_or_else(|| {
            std::thread::available_parallelism().map(|n| n.get()).unwrap_or(8).min(16)
        });
        // diagnostic builds (coverage instrumentation, sanitizers) run many times slower: the limit can be raised for them
        if let Some(ms) = std::env::var("VERIF_WATCHDOG_MS").ok().and_then(|s| s.parse::<u64>().ok()) {
            WATCH_LIMIT_MS.store(ms.max(30_000), Ordering::Relaxed);
        }
        start_watchdog(prop);
        install_quiet_panic_hook();
        Ctx {
            prop,
            level,
            tier,
            seed,
            strict,
            threads,
            start: Instant::now(),
            stats: Mutex::new(Stats::default()),
            violations: Mutex::new(Vec::new()),
            known_open,
            extra: Mutex::new(BTreeMap::new()),
            assumptions: Mutex::new(Vec::new()),
            rule: Mutex::new(String::new()),
            exhaustive: AtomicBool::new(false),
            inconclusive: Mutex::new(Vec::new()),
        }
    }

    pub fn has_violations(&self) -> bool {
        !self.violations.lock().unwrap().is_empty()
    }

    pub fn set_watch_limit_ms(&self, ms: u64) {
        WATCH_LIMIT_MS.store(ms, Ordering::Relaxed);
    }

    pub fn set_rule(&self, s: &str) {
        *self.rule.lock().unwrap() = s.to_string();
    }

    pub fn assume(&self, s: &str) {
        self.assumptions.lock().unwrap().push(s.to_string());
    }

    pub fn put(&self, k: &str, v: Value) {
        self.extra.lock().unwrap().insert(k.to_string(), v);
    }

    fn is_known(&self, sig: &str) -> bool {
        !self.strict && self.known_open.iter().any(|f| f.matches(sig))
    }

    /// Record a case in `st`; returns Err(sig) when the case is an unlisted failure.
    fn record(&self, st: &mut Stats, sub: &str, rep: CaseReport, sample: impl FnOnce() -> Value) -> Result<(), (String, Value)> {
        st.evaluations += 1;
        *st.sub.entry(sub.to_string()).or_default() += 1;
        match rep.verdict {
            Verdict::Pass => {
                if rep.nontrivial {
                    if rep.key.is_empty() {
                        st.nontrivial_counted += 1;
                    } else {
                        st.nontrivial.insert(hash_key(&rep.key));
                    }
                }
                for c in &rep.classes {
                    *st.classes.entry((*c).to_string()).or_default() += 1;
                }
                if st.samples.len() < 3 && rep.nontrivial {
                    // a sample is there to be read: a case of tens of kilobytes is shown by its head
                    let v = sample();
                    let text = v.to_string();
                    st.samples.push(if text.len() > 4000 { json!({"sample_head": text.chars().take(400).collect::<String>(), "sample_bytes": text.len()}) } else { v });
                }
                Ok(())
            }
            Verdict::Discard(why) => {
                *st.discarded.entry(why.to_string()).or_default() += 1;
                Ok(())
            }
            Verdict::Fail { sig, detail } => {
                if self.is_known(&sig) {
                    *st.excluded_known.entry(sig).or_default() += 1;
                    Ok(())
                } else {
                    Err((sig, detail))
                }
            }
        }
    }

    fn add_violation(&self, sub: &str, sig: &str, replay_body: Value, detail: Value) {
        let dir = format!("{}/replays/{}", verif_root(), self.prop);
        let _ = std::fs::create_dir_all(&dir);
        // a failure that needed more than the generated case alone (the case that ran before it on the same
        // thread, say) names the complete reproduction itself
        let replay_body = detail.get("replay_case").cloned().unwrap_or(replay_body);
        let body = json!({
            "property": self.prop,
            "sub": sub,
            "signature": sig,
            "case": replay_body,
            "detail": detail,
        });
        let text = serde_json::to_string_pretty(&body).unwrap();
        let path = format!("{}/{:016x}.json", dir, fnv(&format!("{}{}", sub, body["case"])));
        let _ = std::fs::write(&path, text);
        let mut v = self.violations.lock().unwrap();
        if !v.iter().any(|x| x.replay == path) {
            v.push(Violation { sig: sig.to_string(), replay: path });
        }
    }

    pub fn failed(&self) -> bool {
        !self.violations.lock().unwrap().is_empty()
    }

    /// Run `f` on explicit cases (corpus replay, fixed lists). Sequential.
    pub fn run_list<T>(&self, sub: &str, cases: &[T], f: impl Fn(&T) -> CaseReport, to_json: impl Fn(&T) -> Value) {
        let mut st = Stats::default();
        for c in cases {
            let rep = f(c);
            if let Err((sig, detail)) = self.record(&mut st, sub, rep, || to_json(c)) {
                self.add_violation(sub, &sig, to_json(c), detail);
            }
        }
        self.stats.lock().unwrap().merge(st);
    }

    /// Exhaustive/indexed enumeration `0..total`, sharded over threads by
    /// contiguous ranges. `make` may return None for indices that are not cases.
    /// The smallest failing index per distinct signature is reported.
    pub fn run_enum<T: Send>(
        &self,
        sub: &str,
        total: u64,
        make: impl Fn(u64) -> Option<T> + Sync,
        f: impl Fn(&T) -> CaseReport + Sync,
        to_json: impl Fn(&T) -> Value + Sync,
    ) {
        let _t = SubTimer::new(sub);
        let shards = (self.threads as u64).min(total.max(1)) as usize;
        // interleave blocks so that every shard sees small indices first
        let block: u64 = (total / (shards as u64 * 8)).clamp(1, 256);
        let fails: Mutex<BTreeMap<String, (u64, Value, Value)>> = Mutex::new(BTreeMap::new());
        std::thread::scope(|s| {
            for shard in 0..shards {
                let fails = &fails;
                let make = &make;
                let f = &f;
                let to_json = &to_json;
                s.spawn(move || {
                    let mut st = Stats::default();
                    let mut b = shard as u64;
                    'outer: while b * block < total {
                        let lo = b * block;
                        let hi = ((b + 1) * block).min(total);
                        for i in lo..hi {
                            if let Some(c) = make(i) {
                                let rep = f(&c);
                                if let Err((sig, detail)) = self.record(&mut st, sub, rep, || to_json(&c)) {
                                    let mut fl = fails.lock().unwrap();
                                    let e = fl.entry(sig).or_insert((i, to_json(&c), detail.clone()));
                                    if i < e.0 {
                                        *e = (i, to_json(&c), detail);
                                    }
                                    if fl.len() >= 8 {
                                        break 'outer;
                                    }
                                }
                            }
                        }
                        b += shards as u64;
                    }
                    self.stats.lock().unwrap().merge(st);
                });
            }
        });
        for (sig, (_, case, detail)) in fails.into_inner().unwrap() {
            self.add_violation(sub, &sig, case, detail);
        }
    }

    /// Generated cases: `cases` in total, sharded; each shard is its own
    /// proptest runner with a derived seed; failures are shrunk by proptest.
    pub fn run_gen<S, M>(
        &self,
        sub: &str,
        make: M,
        cases: u64,
        f: impl Fn(&S::Value) -> CaseReport + Sync,
        to_json: impl Fn(&S::Value) -> Value + Sync,
    ) where
        M: Fn() -> S + Sync,
        S: Strategy,
        S::Value: Clone + std::fmt::Debug,
    {
        let _t = SubTimer::new(sub);
        let shards = (self.threads as u64).min(cases.max(1)) as usize;
        let per = (cases + shards as u64 - 1) / shards as u64;
        let stop = AtomicBool::new(false);
        std::thread::scope(|s| {
            for shard in 0..shards {
                let f = &f;
                let to_json = &to_json;
                let make = &make;
                let stop = &stop;
                s.spawn(move || {
                    let strategy = &make();
                    let mut cfg = Config::default();
                    cfg.cases = per as u32;
                    cfg.failure_persistence = None;
                    cfg.rng_seed = RngSeed::Fixed(derive_seed(self.seed, self.prop, sub, shard));
                    cfg.rng_algorithm = RngAlgorithm::ChaCha;
                    cfg.max_shrink_iters = 4000;
                    cfg.max_global_rejects = 1 << 30;
                    cfg.max_local_rejects = 1 << 20;
                    cfg.verbose = 0;
                    let mut runner = TestRunner::new(cfg);
                    let st = RefCell::new(Stats::default());
                    let failed = RefCell::new(false);
                    // the failure as first observed (kept in case the shrunk case does not fail when re-run alone:
                    // a failure that depends on what ran before it on the thread is reported as it was seen)
                    let first_failure: RefCell<Option<(String, Value, Value)>> = RefCell::new(None);
                    let res = runner.run(strategy, |v| {
                        if stop.load(Ordering::Relaxed) && !*failed.borrow() {
                            // another shard already found a violation: finish quickly
                            return Ok(());
                        }
                        let rep = f(&v);
                        if *failed.borrow() {
                            // shrinking: only the verdict matters, stop counting
                            return match rep.verdict {
                                Verdict::Fail { sig, .. } if !self.is_known(&sig) => Err(TestCaseError::fail(sig)),
                                _ => Ok(()),
                            };
                        }
                        let mut stm = st.borrow_mut();
                        match self.record(&mut stm, sub, rep, || to_json(&v)) {
                            Ok(()) => Ok(()),
                            Err((sig, detail)) => {
                                *failed.borrow_mut() = true;
                                *first_failure.borrow_mut() = Some((sig.clone(), detail, to_json(&v)));
                                stop.store(true, Ordering::Relaxed);
                                Err(TestCaseError::fail(sig))
                            }
                        }
                    });
                    self.stats.lock().unwrap().merge(st.into_inner());
                    match res {
                        Ok(()) => {}
                        Err(TestError::Fail(_, v)) => {
                            let rep = f(&v);
                            match rep.verdict {
                                Verdict::Fail { sig, detail } => self.add_violation(sub, &sig, to_json(&v), detail),
                                _ => match first_failure.borrow_mut().take() {
                                    Some((sig, detail, case)) => self.add_violation(sub, &sig, case, detail),
                                    None => self.add_violation(sub, "unstable-failure", to_json(&v), json!("shrunk case passes on re-run")),
                                },
                            }
                        }
                        Err(TestError::Abort(r)) => {
                            self.inconclusive.lock().unwrap().push(format!("{}: proptest aborted: {}", sub, r));
                        }
                    }
                });
            }
        });
    }

    /// Draw `n` values from a strategy deterministically (used to build
    /// histories/batches outside of `run_gen`).
    pub fn sample_values<S: Strategy>(&self, sub: &str, strategy: &S, n: usize) -> Vec<S::Value> {
        let mut cfg = Config::default();
        cfg.failure_persistence = None;
        cfg.rng_seed = RngSeed::Fixed(derive_seed(self.seed, self.prop, sub, 0));
        cfg.rng_algorithm = RngAlgorithm::ChaCha;
        let mut runner = TestRunner::new(cfg);
        (0..n).map(|_| strategy.new_tree(&mut runner).unwrap().current()).collect()
    }

    /// Record an already-judged case from a custom driver.
    pub fn record_case(&self, sub: &str, rep: CaseReport, case_json: Value) {
        let mut st = Stats::default();
        let cj = case_json.clone();
        if let Err((sig, detail)) = self.record(&mut st, sub, rep, move || cj) {
            self.add_violation(sub, &sig, case_json, detail);
        }
        self.stats.lock().unwrap().merge(st);
    }

    pub fn add_sample(&self, v: Value) {
        let mut st = self.stats.lock().unwrap();
        if st.samples.len() < 12 {
            st.samples.push(v);
        }
    }

    /// Child mode: print a machine-readable summary instead of writing evidence.
    pub fn finish_child(&self) -> i32 {
        let st = self.stats.lock().unwrap();
        let viol = self.violations.lock().unwrap();
        let summary = json!({
            "evaluations": st.evaluations,
            "distinct_nontrivial": st.nontrivial.len() as u64 + st.nontrivial_counted,
            "classes": st.classes,
            "per_subcheck": st.sub,
            "excluded_known": st.excluded_known,
            "violations": viol.iter().map(|v| json!({"sig": v.sig, "replay": v.replay})).collect::<Vec<_>>(),
            "inconclusive": *self.inconclusive.lock().unwrap(),
        });
        println!("CHILD-SUMMARY {}", summary);
        if viol.is_empty() {
            0
        } else {
            1
        }
    }

    /// Run the same check in another build profile and merge what it covered.
    pub fn merge_child(&self, exe: &std::path::Path, args: &[&str]) {
        let out = std::process::Command::new(exe).args(args).env("VERIF_SEED", self.seed.to_string()).output();
        let out = match out {
            Ok(o) => o,
            Err(e) => {
                self.inconclusive.lock().unwrap().push(format!("cannot run {}: {}", exe.display(), e));
                return;
            }
        };
        let text = String::from_utf8_lossy(&out.stdout).to_string();
        if out.status.code() == Some(2) || !text.contains("CHILD-SUMMARY ") {
            self.inconclusive.lock().unwrap().push(format!("child {} was inconclusive: {}", exe.display(), text.lines().last().unwrap_or("")));
            return;
        }
        let line = text.lines().find(|l| l.starts_with("CHILD-SUMMARY ")).unwrap();
        let v: Value = serde_json::from_str(&line["CHILD-SUMMARY ".len()..]).unwrap_or(Value::Null);
        {
            let mut st = self.stats.lock().unwrap();
            st.evaluations += v["evaluations"].as_u64().unwrap_or(0);
            st.nontrivial_counted += v["distinct_nontrivial"].as_u64().unwrap_or(0);
            if let Some(m) = v["excluded_known"].as_object() {
                for (k, n) in m {
                    *st.excluded_known.entry(k.clone()).or_default() += n.as_u64().unwrap_or(0);
                }
            }
        }
        self.put("second_profile", json!({"exe": exe.display().to_string(), "evaluations": v["evaluations"], "distinct_nontrivial": v["distinct_nontrivial"], "classes": v["classes"], "per_subcheck": v["per_subcheck"]}));
        if let Some(vs) = v["violations"].as_array() {
            let mut mine = self.violations.lock().unwrap();
            for x in vs {
                mine.push(Violation { sig: format!("release-profile:{}", x["sig"].as_str().unwrap_or("")), replay: x["replay"].as_str().unwrap_or("").to_string() });
            }
        }
    }

    /// Verdict of a replay run (no evidence file is written).
    pub fn finish_replay(&self) -> i32 {
        let viol = self.violations.lock().unwrap();
        if viol.is_empty() {
            println!("replay: property={} held on the saved case", self.prop);
            0
        } else {
            for v in viol.iter() {
                println!("VIOLATION property={} replay={}", self.prop, v.replay);
                println!("  signature: {}", v.sig);
            }
            1
        }
    }

    /// Write the evidence file, print the verdict lines and return the exit code.
    pub fn finish(&self) -> i32 {
        let st = self.stats.lock().unwrap();
        let viol = self.violations.lock().unwrap();
        let wall = self.start.elapsed().as_secs_f64();
        let mut cov = serde_json::Map::new();
        cov.insert("evaluations".into(), json!(st.evaluations));
        cov.insert("distinct_nontrivial".into(), json!(st.nontrivial.len() as u64 + st.nontrivial_counted));
        cov.insert("rule".into(), json!(*self.rule.lock().unwrap()));
        cov.insert("samples".into(), json!(st.samples));
        cov.insert("classes".into(), json!(st.classes));
        cov.insert("per_subcheck".into(), json!(st.sub));
        cov.insert("discarded".into(), json!(st.discarded));
        cov.insert("excluded_known".into(), json!(st.excluded_known));
        cov.insert("exhaustive".into(), json!(self.exhaustive.load(Ordering::Relaxed)));
        cov.insert("threads".into(), json!(self.threads));
        for (k, v) in self.extra.lock().unwrap().iter() {
            cov.insert(k.clone(), v.clone());
        }
        let inconclusive = self.inconclusive.lock().unwrap();
        if !inconclusive.is_empty() {
            cov.insert("inconclusive".into(), json!(*inconclusive));
        }
        let ev = json!({
            "property_id": self.prop,
            "tier": self.tier.name(),
            "seed": self.seed,
            "level": self.level,
            "coverage": Value::Object(cov),
            "assumptions": *self.assumptions.lock().unwrap(),
            "wall_s": (wall * 1000.0).round() / 1000.0,
            "violations": viol.len(),
        });
        let dir = format!("{}/evidence", verif_root());
        let _ = std::fs::create_dir_all(&dir);
        let path = format!("{}/{}.json", dir, self.prop);
        if let Err(e) = std::fs::write(&path, serde_json::to_string_pretty(&ev).unwrap()) {
            println!("INCONCLUSIVE property={} cannot write evidence: {}", self.prop, e);
            return 2;
        }
        for f in &self.known_open {
            let n: u64 = st.excluded_known.iter().filter(|(k, _)| f.matches(k)).map(|(_, v)| *v).sum();
            let name = if f.signature.is_empty() { f.signatures.first().cloned().unwrap_or_default() } else { f.signature.clone() };
            if n > 0 {
                println!("KNOWN-FINDING: property={} {} [signature={} hits={}]", self.prop, f.what, name, n);
            } else {
                println!("note: known finding {} was not reproduced by this run", name);
            }
        }
        println!(
            "property={} tier={} seed={} evaluations={} distinct_nontrivial={} violations={} wall_s={:.1}",
            self.prop,
            self.tier.name(),
            self.seed,
            st.evaluations,
            st.nontrivial.len() as u64 + st.nontrivial_counted,
            viol.len(),
            wall
        );
        if !viol.is_empty() {
            for v in viol.iter() {
                println!("VIOLATION property={} replay={}", self.prop, v.replay);
                println!("  signature: {}", v.sig);
            }
            return 1;
        }
        if !inconclusive.is_empty() {
            for i in inconclusive.iter() {
                println!("INCONCLUSIVE property={} {}", self.prop, i);
            }
            return 2;
        }
        0
    }
}

struct SubTimer(String, Instant);
impl SubTimer {
    fn new(s: &str) -> Self {
        SubTimer(s.to_string(), Instant::now())
    }
}
impl Drop for SubTimer {
    fn drop(&mut self) {
        if std::env::var("VERIF_VERBOSE").is_ok() {
            eprintln!("  [{}] {:.2}s", self.0, self.1.elapsed().as_secs_f64());
        }
    }
}

pub fn load_findings() -> Vec<Finding> {
    let path = format!("{}/known_findings.json", verif_root());
    match std::fs::read_to_string(&path) {
        Ok(s) => serde_json::from_str(&s).unwrap_or_else(|e| {
            println!("INCONCLUSIVE cannot parse {}: {}", path, e);
            std::process::exit(2)
        }),
        Err(_) => Vec::new(),
    }
}

// ---------------------------------------------------------------- panics

thread_local! {
    pub static LAST_PANIC: RefCell<Option<String>> = RefCell::new(None);
}

/// The message and location of the last panic seen on this thread.
pub fn last_panic() -> Option<String> {
    LAST_PANIC.with(|p| p.borrow().clone())
}

pub fn install_quiet_panic_hook() {
    static ONCE: AtomicBool = AtomicBool::new(false);
    if ONCE.swap(true, Ordering::SeqCst) {
        return;
    }
    std::panic::set_hook(Box::new(|info| {
        let msg = if let Some(s) = info.payload().downcast_ref::<&str>() {
            s.to_string()
        } else if let Some(s) = info.payload().downcast_ref::<String>() {
            s.clone()
        } else {
            "panic".to_string()
        };
        let loc = info.location().map(|l| format!("{}:{}", l.file(), l.line())).unwrap_or_default();
        LAST_PANIC.with(|p| *p.borrow_mut() = Some(format!("{} at {}", msg, loc)));
    }));
}

/// Run `f` catching panics; returns Err(message) on panic.
pub fn guarded<T>(input: &str, f: impl FnOnce() -> T) -> Result<T, String> {
    watch_begin(input);
    let r = std::panic::catch_unwind(std::panic::AssertUnwindSafe(f));
    watch_end();
    r.map_err(|_| LAST_PANIC.with(|p| p.borrow_mut().take()).unwrap_or_else(|| "panic".into()))
}

/// Monotone index mapping for shrinking-friendly selection.
pub fn pick_idx(x: u16, len: usize) -> usize {
    ((x as usize) * len) >> 16
}
