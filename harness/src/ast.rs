//! Expression AST, renderer/layout (DESIGN 3.5) and the independent exact
//! reference evaluator (DESIGN 3.1).  The reference evaluates the AST the
//! generator built; it never parses text.

use crate::units_ref::{dim_add, dim_scale, is_zero_dim, Dim, ZERO_DIM};
use num::{BigInt, BigRational, Integer, One, Signed, Zero};
use serde_json::{json, Value};

#[derive(Clone, Debug, PartialEq)]
pub struct Lit {
    /// Exact text as it appears in the query (sign, digits, point, exponent, `%`).
    pub text: String,
    /// Its exact value (percent already applied).
    pub value: BigRational,
}

impl Lit {
    pub fn int(n: i64) -> Lit {
        Lit { text: n.to_string(), value: BigRational::from_integer(BigInt::from(n)) }
    }
    pub fn from_text(text: &str) -> Lit {
        Lit { text: text.to_string(), value: crate::decimal::parse_literal(text).expect("well-formed literal") }
    }
}

/// One unit word with its declared meaning.
#[derive(Clone, Debug, PartialEq)]
pub struct Word {
    pub text: String,
    /// Index into `vocab().units`.
    pub unit: usize,
    /// Decimal exponent of the prefix spelling (0 if none); without gram bias.
    pub prefix: i32,
}

/// A unit expression: factors with signed powers and a rendering style.
#[derive(Clone, Debug, PartialEq)]
pub struct USpell {
    pub factors: Vec<(Word, i32)>,
    /// Put negative powers after a single `/` (true) or write `^-n` (false).
    pub slash: bool,
    /// Join factors with `*` (true) or a blank (false).
    pub star: bool,
    /// 0 = none; otherwise a factor that cancels inside the spelling is appended as written
    /// (`x/x^1`, `x^1/x`, `x^2/x^2`, `x^-1 x`, `x^1 x^-1`, x an unprefixed base unit not used by the
    /// spelling): the unit expression denotes the same unit, whatever explicit exponents it carries
    pub noise: u16,
    /// Write exponents with `**` (the lexer's other spelling of `^`).
    pub starstar: bool,
}

impl USpell {
    pub fn render(&self) -> String {
        let join = if self.star { "*" } else { " " };
        let pw = if self.starstar { "**" } else { "^" };
        let f = |w: &Word, p: i32| if p == 1 { w.text.clone() } else { format!("{}{}{}", w.text, pw, p) };
        let pos: Vec<String> = self.factors.iter().filter(|(_, p)| *p > 0).map(|(w, p)| f(w, *p)).collect();
        let neg: Vec<&(Word, i32)> = self.factors.iter().filter(|(_, p)| *p < 0).collect();
        let body = if self.slash && !pos.is_empty() && !neg.is_empty() {
            let negs: Vec<String> = neg.iter().map(|(w, p)| f(w, -*p)).collect();
            format!("{}/{}", pos.join(join), negs.join(join))
        } else {
            self.factors.iter().map(|(w, p)| f(w, *p)).collect::<Vec<_>>().join(join)
        };
        match self.noise_text(join) {
            Some(n) if !body.is_empty() => format!("{}{}{}", body, join, n),
            _ => body,
        }
    }
    /// The cancelling factor appended by `noise` (None when every candidate unit is used by the spelling).
    pub fn noise_text(&self, join: &str) -> Option<String> {
        if self.noise == 0 {
            return None;
        }
        const SYMS: [(&str, usize); 7] = [("m", 1), ("s", 2), ("A", 3), ("K", 4), ("mol", 5), ("cd", 6), ("B", 7)];
        let v = crate::units_ref::vocab();
        let k = self.noise as usize;
        for t in 0..SYMS.len() {
            let (x, di) = SYMS[(k / 5 + t) % SYMS.len()];
            // the candidate must not occur in the spelling at all (a second occurrence with another prefix is refused by design)
            let used = self.factors.iter().any(|(w, _)| {
                let u = &v.units[w.unit];
                u.is_base && u.dim[di] != 0
            });
            if used {
                continue;
            }
            return Some(match k % 5 {
                0 => format!("{x}/{x}^1"),
                1 => format!("{x}^1/{x}"),
                2 => format!("{x}^2/{x}^2"),
                3 => format!("{x}^-1{join}{x}"),
                _ => format!("{x}^1{join}{x}^-1"),
            });
        }
        None
    }
    pub fn dim(&self) -> Dim {
        let v = crate::units_ref::vocab();
        let mut d = ZERO_DIM;
        for (w, p) in &self.factors {
            d = dim_add(&d, &v.units[w.unit].dim, *p);
        }
        d
    }
    /// Scale of one of this unit in SI base units, with per-unit scales from `t`.
    pub fn scale(&self, t: &crate::units_ref::ScaleTable) -> Option<BigRational> {
        let v = crate::units_ref::vocab();
        let mut s = BigRational::one();
        for (w, p) in &self.factors {
            let u = &v.units[w.unit];
            let base = t.get(&u.key())?;
            let one = crate::tool::pow10((w.prefix + u.bias) as i64) * base;
            s *= crate::tool::rpow(&one, *p as i64)?;
        }
        Some(s)
    }
    /// Expected mirror of this spelling (unit → (power, prefix incl. gram bias)).
    pub fn mirror(&self) -> crate::tool::Mirror {
        let v = crate::units_ref::vocab();
        let mut m = crate::tool::Mirror::new();
        for (w, p) in &self.factors {
            let u = &v.units[w.unit];
            // the same word may be written twice (`km^2 km^-1`): its powers add up
            let e = m.entry(u.key()).or_insert((0, w.prefix + u.bias));
            e.0 += *p;
        }
        m.retain(|_, (p, _)| *p != 0);
        m
    }
    /// Some base dimension cancels inside the spelling.
    pub fn cancelling(&self) -> bool {
        let v = crate::units_ref::vocab();
        let mut abs = [0i32; 8];
        for (w, p) in &self.factors {
            let d = &v.units[w.unit].dim;
            for i in 0..8 {
                abs[i] += (d[i] * p).abs();
            }
        }
        let tot = self.dim();
        (0..8).any(|i| abs[i] > tot[i].abs())
    }
    pub fn has_derived(&self) -> bool {
        let v = crate::units_ref::vocab();
        self.factors.iter().any(|(w, _)| !v.units[w.unit].is_base)
    }
    pub fn has_prefix(&self) -> bool {
        self.factors.iter().any(|(w, _)| w.prefix != 0)
    }
}

#[derive(Clone, Copy, Debug, PartialEq, Eq, Hash)]
pub enum Op {
    Add,
    Sub,
    Mul,
    Div,
}

impl Op {
    pub fn text(self) -> &'static str {
        match self {
            Op::Add => "+",
            Op::Sub => "-",
            Op::Mul => "*",
            Op::Div => "/",
        }
    }
    pub fn prec(self) -> u8 {
        match self {
            Op::Add | Op::Sub => 2,
            Op::Mul | Op::Div => 3,
        }
    }
}

#[derive(Clone, Debug, PartialEq)]
pub enum Expr {
    Num(Lit),
    Qty(Lit, USpell),
    Fact(String),
    Bin(Op, Box<Expr>, Box<Expr>),
    /// Base and the exponent written as an integer literal.
    Pow(Box<Expr>, i32),
    /// Exponent written as a parenthesised integer-valued expression.
    PowE(Box<Expr>, Box<Expr>),
    Cast(Box<Expr>, USpell),
    Call(&'static str, Vec<Expr>),
    /// Explicit (possibly redundant) parentheses.
    Paren(Box<Expr>),
}

impl Expr {
    pub fn bin(op: Op, a: Expr, b: Expr) -> Expr {
        Expr::Bin(op, Box::new(a), Box::new(b))
    }
    pub fn num(n: i64) -> Expr {
        Expr::Num(Lit::int(n))
    }
    fn prec(&self) -> u8 {
        match self {
            Expr::Cast(..) => 1,
            Expr::Bin(op, ..) => op.prec(),
            Expr::Pow(..) | Expr::PowE(..) => 10,
            _ => 100,
        }
    }
    pub fn count_ops(&self) -> usize {
        match self {
            Expr::Bin(_, a, b) => 1 + a.count_ops() + b.count_ops(),
            Expr::Pow(a, _) => 1 + a.count_ops(),
            Expr::PowE(a, b) => 1 + a.count_ops() + b.count_ops(),
            Expr::Cast(a, _) => 1 + a.count_ops(),
            Expr::Call(_, v) => v.iter().map(|e| e.count_ops()).sum(),
            Expr::Paren(a) => a.count_ops(),
            _ => 0,
        }
    }
    pub fn depth(&self) -> usize {
        match self {
            Expr::Bin(_, a, b) | Expr::PowE(a, b) => 1 + a.depth().max(b.depth()),
            Expr::Pow(a, _) | Expr::Cast(a, _) | Expr::Paren(a) => 1 + a.depth(),
            Expr::Call(_, v) => 1 + v.iter().map(|e| e.depth()).max().unwrap_or(0),
            _ => 0,
        }
    }
    pub fn visit(&self, f: &mut dyn FnMut(&Expr)) {
        f(self);
        match self {
            Expr::Bin(_, a, b) | Expr::PowE(a, b) => {
                a.visit(f);
                b.visit(f);
            }
            Expr::Pow(a, _) | Expr::Cast(a, _) | Expr::Paren(a) => a.visit(f),
            Expr::Call(_, v) => v.iter().for_each(|e| e.visit(f)),
            _ => {}
        }
    }
    /// Product of |exponents| along the worst path (size guard for exact powers).
    pub fn pow_weight(&self) -> u64 {
        match self {
            Expr::Bin(_, a, b) => a.pow_weight().max(b.pow_weight()),
            Expr::Pow(a, n) => a.pow_weight().saturating_mul((n.unsigned_abs() as u64).max(1)),
            Expr::PowE(a, _) => a.pow_weight().saturating_mul(8),
            Expr::Cast(a, _) | Expr::Paren(a) => a.pow_weight(),
            Expr::Call(_, v) => v.iter().map(|e| e.pow_weight()).max().unwrap_or(1),
            _ => 1,
        }
    }
}

// ------------------------------------------------------------------ tokens

#[derive(Clone, Copy, Debug, PartialEq, Eq)]
pub enum TK {
    Num,
    Percent,
    Unit,
    Phrase,
    /// `+` `-`
    AddOp,
    /// `*` `/` `^`
    MulOp,
    To,
    LParen,
    RParen,
    FnName,
    Comma,
}

#[derive(Clone, Debug)]
pub struct Tok {
    pub text: String,
    pub kind: TK,
}

#[derive(Clone, Copy, Debug, PartialEq, Eq)]
pub enum ParenMode {
    /// Only where precedence / left-to-right grouping require them.
    Minimal,
    /// Around every binary node and every operand of one.
    Full,
}

fn tok(text: impl Into<String>, kind: TK) -> Tok {
    Tok { text: text.into(), kind }
}

/// Flatten an expression into tokens.
pub fn tokens(e: &Expr, mode: ParenMode) -> Vec<Tok> {
    let mut out = Vec::new();
    emit(e, mode, &mut out);
    out
}

fn emit_wrapped(e: &Expr, wrap: bool, mode: ParenMode, out: &mut Vec<Tok>) {
    if wrap {
        out.push(tok("(", TK::LParen));
        emit(e, mode, out);
        out.push(tok(")", TK::RParen));
    } else {
        emit(e, mode, out);
    }
}

fn is_atomic(e: &Expr) -> bool {
    matches!(e, Expr::Num(_) | Expr::Call(..) | Expr::Paren(_))
}

fn emit(e: &Expr, mode: ParenMode, out: &mut Vec<Tok>) {
    match e {
        Expr::Num(l) => {
            if let Some(body) = l.text.strip_suffix('%') {
                out.push(tok(body, TK::Num));
                out.push(tok("%", TK::Percent));
            } else {
                out.push(tok(l.text.clone(), TK::Num));
            }
        }
        Expr::Qty(l, u) => {
            out.push(tok(l.text.clone(), TK::Num));
            out.push(tok(u.render(), TK::Unit));
        }
        Expr::Fact(p) => out.push(tok(p.clone(), TK::Phrase)),
        Expr::Bin(op, a, b) => {
            let full = mode == ParenMode::Full;
            let wa = if full { !is_atomic(a) } else { a.prec() < op.prec() };
            let wb = if full { !is_atomic(b) } else { b.prec() <= op.prec() };
            emit_wrapped(a, wa, mode, out);
            out.push(tok(op.text(), if op.prec() == 2 { TK::AddOp } else { TK::MulOp }));
            emit_wrapped(b, wb, mode, out);
        }
        Expr::Pow(a, n) => {
            let full = mode == ParenMode::Full;
            // a quantity base is always parenthesised: `2 m^2` is a unit power
            let wa = matches!(**a, Expr::Qty(..) | Expr::Fact(_)) || if full { !is_atomic(a) } else { a.prec() < 10 };
            emit_wrapped(a, wa, mode, out);
            out.push(tok("^", TK::MulOp));
            out.push(tok(n.to_string(), TK::Num));
        }
        Expr::PowE(a, x) => {
            let full = mode == ParenMode::Full;
            let wa = matches!(**a, Expr::Qty(..) | Expr::Fact(_)) || if full { !is_atomic(a) } else { a.prec() < 10 };
            emit_wrapped(a, wa, mode, out);
            out.push(tok("^", TK::MulOp));
            emit_wrapped(x, true, mode, out);
        }
        Expr::Cast(a, u) => {
            let wa = if mode == ParenMode::Full { !is_atomic(a) } else { false };
            emit_wrapped(a, wa, mode, out);
            out.push(tok("to", TK::To));
            out.push(tok(u.render(), TK::Unit));
        }
        Expr::Call(name, args) => {
            out.push(tok(*name, TK::FnName));
            out.push(tok("(", TK::LParen));
            for (i, a) in args.iter().enumerate() {
                if i > 0 {
                    out.push(tok(",", TK::Comma));
                }
                emit(a, mode, out);
            }
            out.push(tok(")", TK::RParen));
        }
        Expr::Paren(a) => emit_wrapped(a, true, mode, out),
    }
}

/// May the gap between two adjacent tokens be empty?
pub fn gap_may_be_empty(a: &Tok, b: &Tok, prev: Option<&Tok>) -> bool {
    use TK::*;
    match (a.kind, b.kind) {
        // function name is adjacent to its parenthesis by definition
        (FnName, LParen) => true,
        // + - to always need blanks on both sides (the lexer glues a sign to a digit)
        (AddOp, _) | (_, AddOp) | (To, _) | (_, To) => false,
        (Num, Unit) => false,
        (Num, Percent) => true,
        // before * / ^ : only after a plain number or a closing parenthesis
        (Num, MulOp) | (RParen, MulOp) | (Percent, MulOp) => true,
        (_, MulOp) => false,
        // after * / ^ : only if the operator itself does not follow a unit/phrase
        (MulOp, Num) | (MulOp, LParen) | (MulOp, FnName) => !matches!(prev.map(|t| t.kind), Some(Unit) | Some(Phrase)),
        (MulOp, _) => false,
        (LParen, _) | (_, RParen) => true,
        (_, Comma) => !matches!(a.kind, Unit | Phrase),
        (Comma, _) => true,
        _ => false,
    }
}

/// Must the gap be empty?
pub fn gap_must_be_empty(a: &Tok, b: &Tok) -> bool {
    matches!((a.kind, b.kind), (TK::FnName, TK::LParen))
}

/// Canonical layout: single blanks around binary operators and after commas,
/// between a number and its unit; nothing inside parentheses.
pub fn canonical_gap(a: &Tok, b: &Tok) -> &'static str {
    use TK::*;
    match (a.kind, b.kind) {
        (FnName, LParen) => "",
        (LParen, _) | (_, RParen) => "",
        (Num, Percent) => "",
        (_, Comma) => "",
        (Comma, _) => " ",
        _ => " ",
    }
}

pub fn render_canonical(e: &Expr) -> String {
    render_with(&tokens(e, ParenMode::Minimal), &mut |a, b, _| canonical_gap(a, b).to_string(), "", "")
}

pub fn render_with(toks: &[Tok], gap: &mut dyn FnMut(&Tok, &Tok, usize) -> String, lead: &str, trail: &str) -> String {
    let mut s = String::from(lead);
    for (i, t) in toks.iter().enumerate() {
        if i > 0 {
            s.push_str(&gap(&toks[i - 1], t, i));
        }
        s.push_str(&t.text);
    }
    s.push_str(trail);
    s
}

pub const BLANKS: [&str; 5] = ["", " ", "  ", "\t", " \t "];

/// Render with gap choices taken from `choices` (indices into BLANKS, cycled);
/// an empty choice falls back to one blank where the gap may not be empty.
pub fn render_layout(toks: &[Tok], choices: &[u8], lead: &str, trail: &str) -> String {
    let mut s = String::from(lead);
    for (i, t) in toks.iter().enumerate() {
        if i > 0 {
            let a = &toks[i - 1];
            let prev = if i >= 2 { Some(&toks[i - 2]) } else { None };
            let mut g = if choices.is_empty() { " " } else { BLANKS[(choices[(i - 1) % choices.len()] as usize) % BLANKS.len()] };
            if gap_must_be_empty(a, t) {
                g = "";
            } else if g.is_empty() && !gap_may_be_empty(a, t, prev) {
                g = " ";
            }
            s.push_str(g);
        }
        s.push_str(&t.text);
    }
    s.push_str(trail);
    s
}

// --------------------------------------------------------------- reference

#[derive(Clone, Debug, PartialEq)]
pub enum UState {
    /// A plain number.
    Plain,
    /// Displayed in a unit of this SI scale, fixed by the statement (literal, cast).
    Known(BigRational),
    /// The tool may choose how to display it.
    Unknown,
}

#[derive(Clone, Debug, PartialEq)]
pub struct Q {
    pub si: BigRational,
    pub dim: Dim,
    pub unit: UState,
}

impl Q {
    pub fn plain(v: BigRational) -> Q {
        Q { si: v, dim: ZERO_DIM, unit: UState::Plain }
    }
}

#[derive(Clone, Debug, PartialEq)]
pub enum RefErr {
    DivZero,
    Incommensurable,
    NonIntegerPower,
    PowerWithUnit,
    Arity,
    /// The statement does not fix the answer (case is discarded, never judged).
    Unspecified(&'static str),
}

pub trait Env {
    fn scales(&self) -> &crate::units_ref::ScaleTable;
    fn fact(&self, _phrase: &str) -> Option<Q> {
        None
    }
}

pub struct PlainEnv {
    pub table: crate::units_ref::ScaleTable,
}

impl Env for PlainEnv {
    fn scales(&self) -> &crate::units_ref::ScaleTable {
        &self.table
    }
}

pub fn r_floor(x: &BigRational) -> BigRational {
    BigRational::from_integer(x.numer().div_floor(x.denom()))
}

pub fn r_ceil(x: &BigRational) -> BigRational {
    -r_floor(&-x.clone())
}

/// Nearest integer, halves away from zero: sign(x)·⌊|x| + 1/2⌋.
pub fn r_round(x: &BigRational) -> BigRational {
    let half = BigRational::new(BigInt::one(), BigInt::from(2));
    let r = r_floor(&(x.abs() + half));
    if x.is_negative() {
        -r
    } else {
        r
    }
}

pub fn eval_ref(e: &Expr, env: &dyn Env) -> Result<Q, RefErr> {
    match e {
        Expr::Num(l) => Ok(Q::plain(l.value.clone())),
        Expr::Qty(l, u) => {
            let s = u.scale(env.scales()).ok_or(RefErr::Unspecified("unit scale unknown"))?;
            let dim = u.dim();
            Ok(Q { si: &l.value * &s, dim, unit: UState::Known(s) })
        }
        Expr::Fact(p) => env.fact(p).ok_or(RefErr::Unspecified("fact unknown")),
        Expr::Paren(a) => eval_ref(a, env),
        Expr::Bin(op, a, b) => {
            // both operands are always evaluated and "unspecified" (size guards, unknown facts) dominates an
            // error of the other operand: the tool evaluates the right operand first, so an operand the
            // reference refuses to compute must never hide behind its sibling's error
            let (ra, rb) = (eval_ref(a, env), eval_ref(b, env));
            for r in [&ra, &rb] {
                if let Err(RefErr::Unspecified(w)) = r {
                    return Err(RefErr::Unspecified(w));
                }
            }
            let a = ra?;
            let b = rb?;
            match op {
                Op::Add | Op::Sub => {
                    let sign = |x: BigRational| if *op == Op::Sub { -x } else { x };
                    match (&a.unit, &b.unit) {
                        (UState::Plain, UState::Plain) => Ok(Q::plain(&a.si + sign(b.si.clone()))),
                        (UState::Plain, UState::Known(s)) => Ok(Q { si: &a.si * s + sign(b.si.clone()), dim: b.dim, unit: UState::Known(s.clone()) }),
                        (UState::Known(s), UState::Plain) => Ok(Q { si: &a.si + sign(&b.si * s), dim: a.dim, unit: UState::Known(s.clone()) }),
                        (UState::Plain, UState::Unknown) | (UState::Unknown, UState::Plain) => Err(RefErr::Unspecified("plain number with a quantity whose display unit the statement does not fix")),
                        _ => {
                            // A dimensionless product/quotient may come back as a plain
                            // number (which then adopts its partner's unit) or keep a unit
                            // such as m/ft: the statement does not fix which.
                            let amb = |q: &Q| q.unit == UState::Unknown && is_zero_dim(&q.dim);
                            if amb(&a) != amb(&b) {
                                return Err(RefErr::Unspecified("dimensionless intermediate result combined with a quantity"));
                            }
                            if a.dim != b.dim {
                                return Err(RefErr::Incommensurable);
                            }
                            let unit = match (&a.unit, &b.unit) {
                                (UState::Known(x), UState::Known(y)) if x == y => UState::Known(x.clone()),
                                _ => UState::Unknown,
                            };
                            Ok(Q { si: &a.si + sign(b.si.clone()), dim: a.dim, unit })
                        }
                    }
                }
                Op::Mul => {
                    let unit = if a.unit == UState::Plain && b.unit == UState::Plain { UState::Plain } else { UState::Unknown };
                    Ok(Q { si: &a.si * &b.si, dim: dim_add(&a.dim, &b.dim, 1), unit })
                }
                Op::Div => {
                    if b.si.is_zero() {
                        return Err(RefErr::DivZero);
                    }
                    let unit = if a.unit == UState::Plain && b.unit == UState::Plain { UState::Plain } else { UState::Unknown };
                    Ok(Q { si: &a.si / &b.si, dim: dim_add(&a.dim, &b.dim, -1), unit })
                }
            }
        }
        Expr::Pow(a, n) => pow_ref(eval_ref(a, env)?, BigRational::from_integer(BigInt::from(*n))),
        Expr::PowE(a, x) => {
            let (ra, rx) = (eval_ref(a, env), eval_ref(x, env));
            for r in [&ra, &rx] {
                if let Err(RefErr::Unspecified(w)) = r {
                    return Err(RefErr::Unspecified(w));
                }
            }
            let a = ra?;
            let x = rx?;
            if x.unit != UState::Plain {
                return Err(RefErr::PowerWithUnit);
            }
            pow_ref(a, x.si)
        }
        Expr::Cast(a, u) => {
            let a = eval_ref(a, env)?;
            let s = u.scale(env.scales()).ok_or(RefErr::Unspecified("unit scale unknown"))?;
            let dim = u.dim();
            if a.unit == UState::Plain {
                return Ok(Q { si: &a.si * &s, dim, unit: UState::Known(s) });
            }
            if a.unit == UState::Unknown && is_zero_dim(&a.dim) {
                return Err(RefErr::Unspecified("cast of a dimensionless intermediate result"));
            }
            if a.dim != dim {
                return Err(RefErr::Incommensurable);
            }
            Ok(Q { si: a.si, dim, unit: UState::Known(s) })
        }
        Expr::Call(name, args) => {
            let all: Vec<Result<Q, RefErr>> = args.iter().map(|a| eval_ref(a, env)).collect();
            for r in &all {
                if let Err(RefErr::Unspecified(w)) = r {
                    return Err(RefErr::Unspecified(w));
                }
            }
            let vals: Result<Vec<Q>, RefErr> = all.into_iter().collect();
            let vals = vals?;
            let (x, digits) = match (*name, vals.len()) {
                ("floor", 1) | ("ceil", 1) | ("round", 1) => (&vals[0], 0i64),
                ("round", 2) => {
                    let n = &vals[1];
                    if !n.si.is_integer() {
                        return Err(RefErr::Unspecified("non-integer digits argument"));
                    }
                    let d: i64 = n.si.to_integer().to_string().parse().map_err(|_| RefErr::Unspecified("digits out of range"))?;
                    (&vals[0], d)
                }
                _ => return Err(RefErr::Arity),
            };
            let scale = match &x.unit {
                UState::Plain => BigRational::one(),
                UState::Known(s) => s.clone(),
                UState::Unknown => return Err(RefErr::Unspecified("rounding a quantity whose display unit is the tool's choice")),
            };
            let mag = &x.si / &scale;
            let p = crate::tool::pow10(digits);
            let scaled = &mag * &p;
            let r = match *name {
                "floor" => r_floor(&scaled),
                "ceil" => r_ceil(&scaled),
                _ => r_round(&scaled),
            };
            let out = r / p;
            Ok(Q { si: out * &scale, dim: x.dim, unit: x.unit.clone() })
        }
    }
}

fn pow_ref(a: Q, n: BigRational) -> Result<Q, RefErr> {
    if !n.is_integer() {
        return Err(RefErr::NonIntegerPower);
    }
    // zero to any integer power is decided without arithmetic, however large the exponent
    if a.si.is_zero() && a.unit == UState::Plain {
        use num::Signed;
        let e = n.to_integer();
        return if e.is_negative() {
            Err(RefErr::DivZero)
        } else if e.is_zero() {
            Ok(Q::plain(BigRational::one()))
        } else {
            Ok(Q::plain(BigRational::zero()))
        };
    }
    let n: i64 = n.to_integer().to_string().parse().map_err(|_| RefErr::Unspecified("huge exponent"))?;
    if n.unsigned_abs() > 1024 {
        return Err(RefErr::Unspecified("huge exponent"));
    }
    // size guard: the exact result would have more than ~40k bits (the tool multiplies |n| times; under load such a case can take longer than the watchdog allows)
    let bits = a.si.numer().bits().max(a.si.denom().bits());
    if bits.saturating_mul(n.unsigned_abs()) > 40_000 {
        return Err(RefErr::Unspecified("result too large"));
    }
    if n < 0 && a.si.is_zero() {
        return Err(RefErr::DivZero);
    }
    let si = crate::tool::rpow(&a.si, n).ok_or(RefErr::DivZero)?;
    let dim = dim_scale(&a.dim, n as i32);
    let unit = if a.unit == UState::Plain { UState::Plain } else { UState::Unknown };
    Ok(Q { si, dim, unit })
}

pub fn q_json(q: &Result<Q, RefErr>) -> Value {
    match q {
        Ok(q) => json!({"si": q.si.to_string(), "dim": q.dim, "plain": q.unit == UState::Plain}),
        Err(e) => json!({"error": format!("{:?}", e)}),
    }
}

pub fn dim_is_zero(q: &Q) -> bool {
    is_zero_dim(&q.dim)
}
