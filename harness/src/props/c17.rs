//! C17 Stored facts and units survive serialisation unchanged.

use super::common::*;
use crate::facts::facts;
use crate::runner::{guarded, pick_idx, CaseReport, Ctx};
use crate::tool::{mirror, to_big, Mirror, UKey};
use crate::units_ref::vocab;
use anything::{Compound, Constant, Rational};
use num::BigInt;
use proptest::prelude::*;
use serde::{Deserialize, Serialize};
use serde_cbor::Value as Cbor;
use serde_json::{json, Value};
use std::collections::BTreeMap;

#[derive(Clone, Debug, Serialize, Deserialize)]
#[serde(tag = "kind", rename_all = "snake_case")]
pub enum Case {
    /// One unit of the registry (variant name).
    Unit { variant: String },
    /// A compound given as (variant, power, prefix) entries.
    Compound { entries: Vec<(String, i32, i32)> },
    /// A rational numer/denom.
    Rational { numer: String, denom: String },
    /// A constant built from parts.
    Constant { tokens: Vec<String>, description: String, numer: String, denom: String, entries: Vec<(String, i32, i32)>, source: Option<u64> },
    /// Shipped constant #i.
    Shipped { index: usize },
    /// A vocabulary word ([prefix]name) the tool accepts: parse -> CBOR -> back.
    Word { word: String },
    /// The entries of a compound written to CBOR by hand in the given key order (not the encoder's own).
    KeyOrder { entries: Vec<(String, i32, i32)>, rotate: usize, reverse: bool },
    /// Shipped constant #i looked up through the index by its own words and compared with the file.
    Indexed { index: usize },
    /// The identifier a derived unit had when /verif was pinned (harness/data/ids_pinned.json).
    Pinned { variant: String, id: u32, singular: String, plural: String },
}

/// The committed identifier table: what data written by the pinned build contains.
fn pinned_ids() -> Vec<Case> {
    let path = format!("{}/harness/data/ids_pinned.json", crate::runner::verif_root());
    let text = match std::fs::read_to_string(&path) {
        Ok(t) => t,
        Err(e) => {
            println!("INCONCLUSIVE property=C17 cannot read {}: {}", path, e);
            std::process::exit(2);
        }
    };
    serde_json::from_str(&text).expect("ids_pinned.json holds a list of pinned cases")
}

/// `VERIF_EMIT_PINS=1 verif C17 --quick` prints the table for the current tree (used once, when pinning).
fn emit_pins() {
    let v = vocab();
    let mut out = Vec::new();
    for u in &v.units {
        if let Some(id) = u.id {
            let c: Compound = u.probe.parse().expect("documented name parses");
            out.push(Case::Pinned { variant: u.variant.clone(), id, singular: c.display(false).to_string(), plural: c.display(true).to_string() });
        }
    }
    println!("{}", serde_json::to_string_pretty(&out).unwrap());
}

fn unit_key_cbor(variant: &str) -> Option<(Cbor, UKey)> {
    let v = vocab();
    let u = v.units.get(*v.by_variant.get(variant)?)?;
    Some(match (&u.base_unit, u.id) {
        (Some(b), _) => (Cbor::Text(b.clone()), UKey::Base(b.clone())),
        (None, Some(id)) => {
            let mut m = BTreeMap::new();
            m.insert(Cbor::Text("Derived".into()), Cbor::Integer(id as i128));
            (Cbor::Map(m), UKey::Derived(id))
        }
        _ => return None,
    })
}

/// CBOR of a compound written by hand from the registry ids (data.toml).
pub fn compound_cbor(entries: &[(String, i32, i32)]) -> Option<(Cbor, Mirror)> {
    let mut names = BTreeMap::new();
    let mut mir = Mirror::new();
    for (variant, power, prefix) in entries {
        let (k, uk) = unit_key_cbor(variant)?;
        let mut st = BTreeMap::new();
        st.insert(Cbor::Text("power".into()), Cbor::Integer(*power as i128));
        st.insert(Cbor::Text("prefix".into()), Cbor::Integer(*prefix as i128));
        names.insert(k, Cbor::Map(st));
        mir.insert(uk, (*power, *prefix));
    }
    let mut top = BTreeMap::new();
    top.insert(Cbor::Text("names".into()), Cbor::Map(names));
    Some((Cbor::Map(top), mir))
}

fn roundtrip_compound(c: &Compound) -> Result<(), (String, String)> {
    let bytes = serde_cbor::to_vec(c).map_err(|e| ("compound-does-not-encode".to_string(), e.to_string()))?;
    let back: Compound = serde_cbor::from_slice(&bytes).map_err(|e| ("compound-does-not-decode".to_string(), e.to_string()))?;
    if back != *c {
        return Err(("compound-roundtrip-differs".into(), format!("{} vs {}", back, c)));
    }
    if back.to_string() != c.to_string() || back.display(true).to_string() != c.display(true).to_string() {
        return Err(("compound-display-differs".into(), format!("{} vs {}", back, c)));
    }
    if mirror(&back) != mirror(c) {
        return Err(("compound-mirror-differs".into(), format!("{:?} vs {:?}", mirror(&back), mirror(c))));
    }
    // the same bytes through the streaming entry point (how the shipped data files are read)
    let streamed: Compound = serde_cbor::from_reader(std::io::Cursor::new(&bytes)).map_err(|e| ("compound-does-not-decode-from-a-stream".to_string(), e.to_string()))?;
    if streamed != *c {
        return Err(("compound-roundtrip-differs".into(), format!("from a stream: {} vs {}", streamed, c)));
    }
    let again = serde_cbor::to_vec(&back).map_err(|e| ("compound-does-not-encode".to_string(), e.to_string()))?;
    if again != bytes {
        return Err(("compound-reencoding-differs".into(), format!("{} bytes vs {} bytes", again.len(), bytes.len())));
    }
    Ok(())
}

fn roundtrip_rational(r: &Rational) -> Result<(), (String, String)> {
    let bytes = serde_cbor::to_vec(r).map_err(|e| ("rational-does-not-encode".to_string(), e.to_string()))?;
    let back: Rational = serde_cbor::from_slice(&bytes).map_err(|e| ("rational-cbor-does-not-decode".to_string(), e.to_string()))?;
    if back != *r || to_big(&back) != to_big(r) {
        return Err(("rational-cbor-roundtrip-differs".into(), format!("{}/{} vs {}/{}", back.numer(), back.denom(), r.numer(), r.denom())));
    }
    if serde_cbor::to_vec(&back).ok().as_ref() != Some(&bytes) {
        return Err(("rational-cbor-reencoding-differs".into(), String::new()));
    }
    let text = serde_json::to_string(r).map_err(|e| ("rational-json-does-not-encode".to_string(), e.to_string()))?;
    let back: Rational = serde_json::from_str(&text).map_err(|e| ("rational-json-does-not-decode".to_string(), e.to_string()))?;
    if back != *r || to_big(&back) != to_big(r) {
        return Err(("rational-json-roundtrip-differs".into(), format!("{} -> {}/{}", text, back.numer(), back.denom())));
    }
    if serde_json::to_string(&back).ok().as_ref() != Some(&text) {
        return Err(("rational-json-reencoding-differs".into(), String::new()));
    }
    Ok(())
}

/// A fraction as another writer may have stored it — not in lowest terms, or with the sign in the denominator
/// (`4/2`, `-10/5`, `3/-6`): it decodes to its value, and writing it out and reading it back keeps that value.
fn roundtrip_stored_unreduced(n: &BigInt, d: &BigInt) -> Result<(), (String, String)> {
    use num::Zero;
    if d.is_zero() {
        return Ok(());
    }
    let want = num::BigRational::new(n.clone(), d.clone());
    for k in [2i64, 3, 10, -1, -6] {
        let pair = (n * BigInt::from(k), d * BigInt::from(k));
        // CBOR
        let bytes = serde_cbor::to_vec(&pair).map_err(|e| ("pair-does-not-encode".to_string(), e.to_string()))?;
        let raw: Rational = serde_cbor::from_slice(&bytes).map_err(|e| ("stored-unreduced-rational-does-not-decode".to_string(), format!("{}/{}: {}", pair.0, pair.1, e)))?;
        if to_big(&raw) != want {
            return Err(("stored-unreduced-rational-decodes-to-another-value".into(), format!("{}/{} read as {}/{}", pair.0, pair.1, raw.numer(), raw.denom())));
        }
        let again = serde_cbor::to_vec(&raw).map_err(|e| ("rational-does-not-encode".to_string(), e.to_string()))?;
        let back: Rational = serde_cbor::from_slice(&again).map_err(|e| ("rational-cbor-does-not-decode".to_string(), e.to_string()))?;
        if to_big(&back) != want {
            return Err(("stored-unreduced-rational-changes-when-written-again".into(), format!("{}/{} (= {}) written again and read back is {}/{}", pair.0, pair.1, want, back.numer(), back.denom())));
        }
        // JSON
        let text = serde_json::to_string(&pair).map_err(|e| ("pair-does-not-encode".to_string(), e.to_string()))?;
        let raw: Rational = serde_json::from_str(&text).map_err(|e| ("stored-unreduced-rational-does-not-decode".to_string(), format!("{}: {}", text, e)))?;
        if to_big(&raw) != want {
            return Err(("stored-unreduced-rational-decodes-to-another-value".into(), format!("{} read as {}/{}", text, raw.numer(), raw.denom())));
        }
        let again = serde_json::to_string(&raw).map_err(|e| ("rational-json-does-not-encode".to_string(), e.to_string()))?;
        let back: Rational = serde_json::from_str(&again).map_err(|e| ("rational-json-does-not-decode".to_string(), format!("{}: {}", again, e)))?;
        if to_big(&back) != want {
            return Err(("stored-unreduced-rational-changes-when-written-again".into(), format!("{} (= {}) written again as {} and read back is {}/{}", text, want, again, back.numer(), back.denom())));
        }
    }
    Ok(())
}

fn same_constant(a: &Constant, b: &Constant) -> bool {
    a.source == b.source && a.tokens == b.tokens && a.description == b.description && a.value == b.value && a.unit == b.unit
}

fn roundtrip_constant(c: &Constant) -> Result<(), (String, String)> {
    let bytes = serde_cbor::to_vec(c).map_err(|e| ("constant-does-not-encode".to_string(), e.to_string()))?;
    let back: Constant = serde_cbor::from_slice(&bytes).map_err(|e| ("constant-does-not-decode".to_string(), e.to_string()))?;
    if !same_constant(&back, c) {
        return Err(("constant-roundtrip-differs".into(), format!("{:?} vs {:?}", back, c)));
    }
    let streamed: Constant = serde_cbor::from_reader(std::io::Cursor::new(&bytes)).map_err(|e| ("constant-does-not-decode-from-a-stream".to_string(), e.to_string()))?;
    if !same_constant(&streamed, c) {
        return Err(("constant-roundtrip-differs".into(), format!("from a stream: {:?} vs {:?}", streamed, c)));
    }
    if serde_cbor::to_vec(&back).ok().as_ref() != Some(&bytes) {
        return Err(("constant-reencoding-differs".into(), String::new()));
    }
    Ok(())
}

fn check(c: &Case) -> CaseReport {
    let key = serde_json::to_string(c).unwrap();
    let r = guarded(&key, || -> Result<(bool, Vec<&'static str>), (String, String)> {
        match c {
            Case::Unit { variant } => {
                let v = vocab();
                let u = v.unit(variant);
                // (a) the documented name parses to a compound made of exactly the registry key
                let parsed: Compound = u.probe.parse().map_err(|e: anything::Error| ("unit-name-does-not-parse".to_string(), e.to_string()))?;
                let mut want = Mirror::new();
                want.insert(u.key(), (1, u.bias));
                if mirror(&parsed) != want {
                    return Err((format!("registry-id-differs:{}", variant), format!("name {} serialises as {:?}, data.toml documents {:?}", u.probe, mirror(&parsed), want)));
                }
                roundtrip_compound(&parsed)?;
                // (b) the id documented in data.toml decodes to the same unit
                let (cb, _) = compound_cbor(&[(variant.clone(), 1, u.bias)]).ok_or(("unknown-variant".to_string(), variant.clone()))?;
                let decoded: Compound = serde_cbor::value::from_value(cb).map_err(|e| (format!("documented-id-does-not-decode:{}", variant), e.to_string()))?;
                if decoded != parsed || decoded.to_string() != parsed.to_string() {
                    return Err((format!("documented-id-decodes-to-another-unit:{}", variant), format!("{} vs {}", decoded, parsed)));
                }
                Ok((!u.is_base, vec!["registry-unit"]))
            }
            Case::Compound { entries } => {
                let (cb, mir) = compound_cbor(entries).ok_or(("unknown-variant".to_string(), format!("{:?}", entries)))?;
                let decoded: Compound = serde_cbor::value::from_value(cb).map_err(|e| ("compound-does-not-decode".to_string(), e.to_string()))?;
                if mirror(&decoded) != mir {
                    return Err(("compound-decodes-differently".into(), format!("{:?} vs {:?}", mirror(&decoded), mir)));
                }
                roundtrip_compound(&decoded)?;
                let derived = entries.iter().any(|(v, _, _)| vocab().unit(v).id.is_some());
                Ok((entries.len() >= 2 && derived, vec!["random-compound"]))
            }
            Case::Rational { numer, denom } => {
                let n: BigInt = numer.parse().unwrap();
                let d: BigInt = denom.parse().unwrap();
                let r = Rational::new(n.clone(), d.clone());
                roundtrip_rational(&r)?;
                roundtrip_stored_unreduced(&n, &d)?;
                Ok((n.bits() > 64, vec!["rational"]))
            }
            Case::Constant { tokens, description, numer, denom, entries, source } => {
                let (cb, _) = compound_cbor(entries).ok_or(("unknown-variant".to_string(), format!("{:?}", entries)))?;
                let unit: Compound = serde_cbor::value::from_value(cb).map_err(|e| ("compound-does-not-decode".to_string(), e.to_string()))?;
                let value = Rational::new(numer.parse::<BigInt>().unwrap(), denom.parse::<BigInt>().unwrap());
                let c = Constant { source: *source, tokens: tokens.iter().map(|t| t.as_str().into()).collect(), description: description.as_str().into(), value, unit };
                roundtrip_constant(&c)?;
                Ok((true, vec!["random-constant"]))
            }
            Case::Word { word } => {
                let parsed: Compound = match word.parse() {
                    Ok(c) => c,
                    Err(_) => return Ok((false, vec!["word-rejected"])),
                };
                roundtrip_compound(&parsed)?;
                let v = serde_cbor::value::to_value(&parsed).map_err(|e| ("compound-does-not-encode".to_string(), e.to_string()))?;
                let back: Compound = serde_cbor::value::from_value(v).map_err(|e| ("compound-does-not-decode".to_string(), format!("{}: {}", word, e)))?;
                if back != parsed {
                    return Err(("compound-roundtrip-differs".into(), format!("{} vs {}", back, parsed)));
                }
                Ok((true, vec!["vocabulary-word"]))
            }
            Case::KeyOrder { entries, rotate, reverse } => {
                // canonical: what the library itself writes for this compound
                let (cb, mir) = compound_cbor(entries).ok_or(("unknown-variant".to_string(), format!("{:?}", entries)))?;
                let canonical: Compound = serde_cbor::value::from_value(cb).map_err(|e| ("compound-does-not-decode".to_string(), e.to_string()))?;
                let canonical_bytes = serde_cbor::to_vec(&canonical).map_err(|e| ("compound-does-not-encode".to_string(), e.to_string()))?;
                // by hand: {"names": {k1: s1, k2: s2, ...}} with the entries in another order
                let mut order: Vec<&(String, i32, i32)> = entries.iter().collect();
                if *reverse {
                    order.reverse();
                }
                let n = order.len();
                order.rotate_left(rotate % n.max(1));
                let mut bytes = vec![0xa1u8, 0x65, b'n', b'a', b'm', b'e', b's'];
                if n >= 24 {
                    return Ok((false, vec!["too-many-entries"]));
                }
                bytes.push(0xa0 + n as u8);
                for (variant, power, prefix) in order {
                    let (k, _) = unit_key_cbor(variant).ok_or(("unknown-variant".to_string(), variant.clone()))?;
                    bytes.extend(serde_cbor::to_vec(&k).unwrap());
                    let mut st = BTreeMap::new();
                    st.insert(Cbor::Text("power".into()), Cbor::Integer(*power as i128));
                    st.insert(Cbor::Text("prefix".into()), Cbor::Integer(*prefix as i128));
                    bytes.extend(serde_cbor::to_vec(&Cbor::Map(st)).unwrap());
                }
                let decoded: Compound = serde_cbor::from_slice(&bytes).map_err(|e| ("compound-in-another-key-order-does-not-decode".to_string(), e.to_string()))?;
                if decoded != canonical || mirror(&decoded) != mir {
                    return Err(("compound-depends-on-key-order".into(), format!("`{}` vs `{}` (equal: {})", decoded, canonical, decoded == canonical)));
                }
                if decoded.to_string() != canonical.to_string() || decoded.display(true).to_string() != canonical.display(true).to_string() {
                    return Err(("compound-depends-on-key-order".into(), format!("displays `{}` vs `{}`", decoded, canonical)));
                }
                if serde_cbor::to_vec(&decoded).ok().as_ref() != Some(&canonical_bytes) {
                    return Err(("compound-depends-on-key-order".into(), "re-encoding differs from the canonical encoding".into()));
                }
                Ok((entries.len() >= 2, vec!["foreign-key-order"]))
            }
            Case::Indexed { index } => {
                let f = &facts().all[*index];
                if !crate::facts::typable(&f.tokens) {
                    return Ok((false, vec!["untypable(skipped)"]));
                }
                let q = crate::facts::phrase(&f.tokens);
                // a stored payload that does not decode is skipped by the lookup: "nothing found" for a constant
                // that is in the file means it did not survive being stored
                if let Ok(rs) = crate::tool::run(crate::tool::shared_db(), &q) {
                    if let [crate::tool::R::Err { msg, .. }] = rs.as_slice() {
                        return Err(("shipped-constant-lost-in-the-index".into(), format!("{}: {}", q, msg)));
                    }
                }
                match super::c16::differential(crate::tool::shared_db(), &f.tokens, &q) {
                    Some((sig, why)) => return Err((sig, format!("{}: {}", q, why))),
                    None => Ok((true, vec!["shipped-constant-through-the-index"])),
                }
            }
            Case::Pinned { variant, id, singular, plural } => {
                // the identifier this unit had when /verif was pinned (data written by an earlier
                // build carries it) must still decode, and to the unit its documented name denotes
                let mut m = std::collections::BTreeMap::new();
                m.insert(Cbor::Text("Derived".into()), Cbor::Integer(*id as i128));
                let mut st = std::collections::BTreeMap::new();
                st.insert(Cbor::Text("power".into()), Cbor::Integer(1));
                st.insert(Cbor::Text("prefix".into()), Cbor::Integer(0));
                let mut names = std::collections::BTreeMap::new();
                names.insert(Cbor::Map(m), Cbor::Map(st));
                let mut top = std::collections::BTreeMap::new();
                top.insert(Cbor::Text("names".into()), Cbor::Map(names));
                let decoded: Compound = serde_cbor::value::from_value(Cbor::Map(top)).map_err(|e| (format!("pinned-id-does-not-decode:{}", variant), format!("id {:#x}: {}", id, e)))?;
                let (s1, p1) = (decoded.display(false).to_string(), decoded.display(true).to_string());
                if s1 != *singular || p1 != *plural {
                    return Err((format!("pinned-id-decodes-to-another-unit:{}", variant), format!("id {:#x} was `{}`/`{}` when pinned, now decodes to `{}`/`{}`", id, singular, plural, s1, p1)));
                }
                let v = vocab();
                if let Some(u) = v.units.iter().find(|u| u.variant == *variant) {
                    let parsed: Compound = u.probe.parse().map_err(|e: anything::Error| ("unit-name-does-not-parse".to_string(), e.to_string()))?;
                    if parsed != decoded {
                        return Err((format!("pinned-id-is-not-the-named-unit:{}", variant), format!("id {:#x} decodes to `{}`, the name `{}` parses to `{}` ({:?})", id, decoded, u.probe, parsed, mirror(&parsed))));
                    }
                } else {
                    return Err((format!("pinned-unit-left-the-registry:{}", variant), format!("id {:#x}", id)));
                }
                Ok((true, vec!["pinned-identifier"]))
            }
            Case::Shipped { index } => {
                let f = &facts().all[*index];
                let c: Constant = serde_cbor::value::from_value(f.raw.clone()).map_err(|e| ("shipped-constant-does-not-decode".to_string(), e.to_string()))?;
                roundtrip_constant(&c)?;
                // every unit id of shipped data resolves to a registry unit
                for k in f.unit.keys() {
                    if vocab().by_key(k).is_none() {
                        return Err(("shipped-unit-outside-registry".into(), format!("{:?}", k)));
                    }
                    // ... and is one of the pinned identifiers (so its meaning is the pinned one, checked above)
                    if let UKey::Derived(id) = k {
                        static PINS: std::sync::OnceLock<std::collections::BTreeSet<u32>> = std::sync::OnceLock::new();
                        let pins = PINS.get_or_init(|| pinned_ids().iter().filter_map(|c| if let Case::Pinned { id, .. } = c { Some(*id) } else { None }).collect());
                        if !pins.contains(id) {
                            return Err(("shipped-unit-not-a-pinned-identifier".into(), format!("{:#x}", id)));
                        }
                    }
                }
                roundtrip_compound(&c.unit)?;
                roundtrip_rational(&c.value)?;
                Ok((!f.unit.is_empty(), vec!["shipped-constant"]))
            }
        }
    });
    match r {
        Err(p) => CaseReport::fail(key, format!("panic:{}", panic_site(&p)), json!({"case": c, "panic": p})),
        Ok(Err((sig, why))) => CaseReport::fail(key, sig, json!({"case": c, "why": why})),
        Ok(Ok((nt, classes))) => CaseReport::pass(key, nt, classes),
    }
}

fn entries() -> impl Strategy<Value = Vec<(String, i32, i32)>> {
    // stored prefix = an SI prefix exponent plus the unit's bias (the gram is stored relative to the
    // kilogram, so `yg` is -27): exactly the prefixes a unit expression of the query language can carry
    const SI: [i32; 21] = [-24, -21, -18, -15, -12, -9, -6, -3, -2, -1, 0, 1, 2, 3, 6, 9, 12, 15, 18, 21, 24];
    prop::collection::vec((any::<u16>(), (-9i32..=9).prop_filter("nonzero", |p| *p != 0), 0usize..21, any::<bool>()), 1..=6).prop_map(|v| {
        let voc = vocab();
        let mut seen = std::collections::BTreeSet::new();
        v.into_iter()
            .filter_map(|(u, p, pre, biased)| {
                let ud = &voc.units[pick_idx(u, voc.units.len())];
                let pre = SI[pre] + if biased { ud.bias } else { 0 };
                // gram and kilogram share one key
                if seen.insert(ud.key()) {
                    Some((ud.variant.clone(), p, pre))
                } else {
                    None
                }
            })
            .collect()
    })
}

fn bigint(max_bits: usize) -> impl Strategy<Value = BigInt> {
    (prop::collection::vec(any::<u32>(), 0..=max_bits / 32), any::<bool>()).prop_map(|(limbs, neg)| {
        let mut n = BigInt::from(0);
        for l in limbs {
            n = n * BigInt::from(1u64 << 32) + BigInt::from(l);
        }
        if neg {
            -n
        } else {
            n
        }
    })
}

fn rational_case() -> impl Strategy<Value = Case> {
    prop_oneof![
        8 => (bigint(2000), bigint(2000)).prop_map(|(n, d)| {
            let d = if d == BigInt::from(0) { BigInt::from(1) } else { d };
            Case::Rational { numer: n.to_string(), denom: d.to_string() }
        }),
        1 => Just(Case::Rational { numer: "0".into(), denom: "1".into() }),
        // whole numbers of every size (denominator one), incl. 2^k and 2^k +- 1
        3 => bigint(256).prop_map(|n| Case::Rational { numer: n.to_string(), denom: "1".into() }),
        2 => (0u32..300, -1i32..=1, any::<bool>()).prop_map(|(k, d, neg)| {
            let n = (BigInt::from(1) << k as usize) + BigInt::from(d);
            Case::Rational { numer: (if neg { -n } else { n }).to_string(), denom: "1".into() }
        }),
        1 => (1u32..60, 0u32..40).prop_map(|(a, e)| Case::Rational { numer: format!("{}{}", a, "0".repeat(e as usize)), denom: "1".into() }),
        1 => (-1000i64..1000, 1i64..1000).prop_map(|(n, d)| Case::Rational { numer: n.to_string(), denom: d.to_string() }),
    ]
}

pub fn run_check(ctx: &Ctx) {
    ctx.set_rule("unit expressions with powers at the boundaries of every integer width (2^7 .. 2^31, both signs) written and read back (==, Display); exhaustive: all 86 registry units (name -> Compound -> CBOR -> back; the id written by the code equals the id documented in tools/gen/data.toml; a CBOR value hand-built from the documented id decodes to the same unit; ids pairwise distinct; every identifier pinned in harness/data/ids_pinned.json — what data written by the pinned build contains — still decodes, to a unit with the same singular/plural name, equal to the unit its documented name parses to) every shipped source record (reachable by its id in a started database with the id, description and URL the file holds; CBOR round trip) and every shipped constant (decode, re-encode, decode, equal, byte-identical, unit ids inside the registry; and, looked up by its own words, the constant stored in the index equals the one in the file field by field, tokens included); every accepted vocabulary word (parse -> CBOR -> back); generated: compounds of 1-6 units with every SI prefix (plus the gram's bias) and powers -9..9 built from documented ids, the same compounds written by hand in another map-key order (must decode to an equal compound with identical display and canonical re-encoding), rationals up to 2000 bits through CBOR and JSON (also as another writer may have stored them: not in lowest terms, sign in the denominator — decoded, written again, read back: the same value), constants; non-trivial = derived unit / compound with >=2 units incl. a derived one / rational with >64-bit numerator / constant; distinct by case");
    if std::env::var("VERIF_EMIT_PINS").is_ok() {
        emit_pins();
        std::process::exit(0);
    }
    // first, what needs nothing but the public parser, `==` and Display (no observation through the serialised
    // shape): unit expressions with powers at the boundaries of every integer width, written and read back
    {
        let mut texts: Vec<String> = Vec::new();
        let mut powers: Vec<i64> = vec![1, 2, -1, 0];
        for k in [7u32, 8, 15, 16, 23, 24, 30] {
            for d in [-1i64, 0, 1] {
                powers.push((1i64 << k) + d);
                powers.push(-(1i64 << k) + d);
            }
        }
        powers.push(i32::MAX as i64);
        powers.push(i32::MIN as i64 + 1);
        for u in ["m", "km", "mg", "s", "J", "MB", "ft", "kWb", "yg", "°C"] {
            for p in &powers {
                texts.push(format!("{}^{}", u, p));
                // a second, different unit (the same unit twice would add the powers: finding #19 at the boundary)
                texts.push(format!("{}^{}*cd", u, p));
            }
        }
        ctx.run_list(
            "written-and-read-back(text, ==, Display)",
            &texts,
            |t| {
                let r = guarded(t, || -> Result<bool, (String, String)> {
                    let c: Compound = match t.parse() {
                        Ok(c) => c,
                        Err(_) => return Ok(false),
                    };
                    let bytes = serde_cbor::to_vec(&c).map_err(|e| ("compound-does-not-encode".to_string(), e.to_string()))?;
                    let back: Compound = serde_cbor::from_slice(&bytes).map_err(|e| ("compound-does-not-decode".to_string(), e.to_string()))?;
                    if back != c || back.to_string() != c.to_string() {
                        return Err(("compound-roundtrip-differs".to_string(), format!("`{}` written and read back is `{}`", c, back)));
                    }
                    Ok(true)
                });
                match r {
                    Err(p) => CaseReport::fail(t, "panic", json!({"text": t, "panic": p})),
                    Ok(Err((sig, why))) => CaseReport::fail(t, sig, json!({"text": t, "why": why})),
                    Ok(Ok(accepted)) => CaseReport::pass(t, accepted, vec![if accepted { "text-roundtrip" } else { "text-refused" }]),
                }
            },
            |t| json!({"kind": "word", "word": t}),
        );
    }
    let corpus: Vec<(String, Case)> = load_corpus("C17");
    let cases: Vec<Case> = corpus.into_iter().map(|c| c.1).collect();
    ctx.run_list("corpus", &cases, check, |c| to_json(c));
    let v = vocab();
    // ids pairwise distinct (data.toml is the registry)
    let mut ids = std::collections::BTreeMap::new();
    for u in &v.units {
        if let Some(id) = u.id {
            if let Some(other) = ids.insert(id, u.variant.clone()) {
                ctx.record_case("registry", CaseReport::fail("ids", "duplicate-id", json!({"id": id, "a": other, "b": u.variant})), json!({"id": id}));
            }
        }
    }
    let units: Vec<Case> = v.units.iter().map(|u| Case::Unit { variant: u.variant.clone() }).collect();
    ctx.run_list("registry-units", &units, check, |c| to_json(c));
    // the shipped files decoded in one piece, typed, from the gzip stream: as many constants as the untyped decode finds
    let typed = crate::facts::typed_constants().len();
    if typed != facts().all.len() {
        ctx.record_case("registry", CaseReport::fail("typed-stream-decode", "shipped-files-do-not-decode-from-a-stream", json!({"typed_constants": typed, "constants": facts().all.len()})), json!({"typed": typed}));
    }
    // the fourth shipped file: every source record is reachable by its id after decoding, unchanged, and
    // survives a CBOR round trip of its own
    {
        let f = facts();
        ctx.put("shipped_sources", json!(f.sources_full.len()));
        let db = crate::tool::shared_db();
        for (id, description, url) in &f.sources_full {
            let rep = match db.get_source(*id) {
                None => CaseReport::fail(format!("source {}", id), "shipped-source-lost", json!({"id": id, "description": description})),
                Some(s) if s.id != *id || &*s.description != description.as_str() || s.url.as_deref() != url.as_deref() => CaseReport::fail(format!("source {}", id), "shipped-source-changed", json!({"id": id, "description": description, "got_id": s.id, "got_description": s.description})),
                Some(s) => match serde_cbor::to_vec(s).map_err(|e| e.to_string()).and_then(|b| serde_cbor::from_slice::<anything::Source>(&b).map_err(|e| e.to_string())) {
                    Ok(back) if back.id == s.id && back.description == s.description && back.url == s.url => CaseReport::pass(format!("source {}", id), true, vec!["shipped-source"]),
                    Ok(back) => CaseReport::fail(format!("source {}", id), "source-roundtrip-differs", json!({"id": id, "back": back.id})),
                    Err(e) => CaseReport::fail(format!("source {}", id), "source-does-not-roundtrip", json!({"id": id, "error": e})),
                },
            };
            ctx.record_case("shipped-sources", rep, json!({"source": id}));
        }
        if f.sources_full.is_empty() {
            ctx.record_case("shipped-sources", CaseReport::fail("sources", "no-shipped-sources-decoded", json!({})), json!({"sources": 0}));
        }
    }
    let pins = pinned_ids();
    ctx.put("pinned_identifiers", json!(pins.len()));
    ctx.run_list("pinned-identifiers", &pins, check, |c| to_json(c));
    let n_ship = facts().all.len() as u64;
    ctx.run_enum("shipped-constants", n_ship, |i| Some(Case::Shipped { index: i as usize }), check, |c| to_json(c));
    ctx.run_enum("shipped-constants-through-the-index", n_ship, |i| Some(Case::Indexed { index: i as usize }), check, |c| to_json(c));
    ctx.exhaustive.store(true, std::sync::atomic::Ordering::Relaxed);
    ctx.put("exhaustive_scope", json!("all registry units and all shipped constants (direct decode, and as stored in and returned by the index)"));
    let n = ctx.tier.pick(60_000u64, 2_000_000);
    let w = crate::gen::words();
    ctx.run_enum("vocabulary-words", w.all.len() as u64, |i| Some(Case::Word { word: w.all[i as usize].word.text.clone() }), check, |c| to_json(c));
    ctx.run_gen("random-compounds", || entries().prop_map(|entries| Case::Compound { entries }), n, check, |c| to_json(c));
    ctx.run_gen("foreign-key-order", || (entries(), 0usize..6, any::<bool>()).prop_map(|(entries, rotate, reverse)| Case::KeyOrder { entries, rotate, reverse }), n / 2, check, |c| to_json(c));
    ctx.run_gen("random-rationals", rational_case, n / 2, check, |c| to_json(c));
    ctx.run_gen(
        "random-constants",
        || {
            (prop::collection::vec("[a-z0-9°' /-]{1,12}", 0..5), ".{0,40}", rational_case(), entries(), prop::option::of(any::<u64>())).prop_map(|(tokens, description, r, entries, source)| {
                let (numer, denom) = match r {
                    Case::Rational { numer, denom } => (numer, denom),
                    _ => unreachable!(),
                };
                Case::Constant { tokens, description, numer, denom, entries, source }
            })
        },
        n / 4,
        check,
        |c| to_json(c),
    );
}

pub fn replay(ctx: &Ctx, case: &Value) {
    let c: Case = serde_json::from_value(case.clone()).expect("replay file holds a C17 case");
    ctx.run_list("replay", &[c], check, |c| to_json(c));
}
