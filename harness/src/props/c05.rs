//! C05 Every unit word denotes the standard definition of a unit and prefix.

use super::common::*;
use crate::gen::{words, WordInfo};
use crate::runner::{pick_idx, CaseReport, Ctx};
use crate::tool::{parse_compound, run, shared_db, Mirror, UKey, R};
use crate::units_ref::{dim_add, dim_spelling, mirror_dim, mirror_scale, typable_word, vocab, Dim, ZERO_DIM};
use num::{BigRational, One};
use proptest::prelude::*;
use serde::{Deserialize, Serialize};
use serde_json::{json, Value};
use std::collections::BTreeSet;

// ------------------------------------------------------------ segmentation

/// One item of a segmentation: (unit key, decimal prefix incl. gram bias).
type Item = (UKey, i32);

/// All readings of `word` as a sequence of `[prefix-spelling] unit-name` items
/// over the names documented in data.toml (independent of the generated lexer).
pub fn segmentations(word: &str, cap: usize) -> Vec<Vec<Item>> {
    let v = vocab();
    let mut out = Vec::new();
    let mut cur = Vec::new();
    fn go(v: &crate::units_ref::Vocab, rest: &str, cur: &mut Vec<Item>, out: &mut Vec<Vec<Item>>, cap: usize) {
        if out.len() >= cap {
            return;
        }
        if rest.is_empty() {
            out.push(cur.clone());
            return;
        }
        for u in &v.units {
            for name in &u.names {
                if let Some(r) = rest.strip_prefix(name.as_str()) {
                    cur.push((u.key(), u.bias));
                    go(v, r, cur, out, cap);
                    cur.pop();
                }
            }
        }
        for p in &v.prefixes {
            for pn in &p.names {
                if let Some(r1) = rest.strip_prefix(pn.as_str()) {
                    for u in &v.units {
                        for name in &u.names {
                            if let Some(r) = r1.strip_prefix(name.as_str()) {
                                cur.push((u.key(), p.exp + u.bias));
                                go(v, r, cur, out, cap);
                                cur.pop();
                            }
                        }
                    }
                }
            }
        }
    }
    go(v, word, &mut cur, &mut out, cap);
    out
}

/// Fold items (each with a signed power) into a mirror; None on a prefix conflict.
pub fn fold(items: &[(Item, i32)]) -> Option<Mirror> {
    // sum powers per (unit, prefix); what cancels to zero is gone; a unit left
    // with two different prefixes is a conflict
    let mut groups: std::collections::BTreeMap<(UKey, i32), i32> = std::collections::BTreeMap::new();
    for ((k, pre), pw) in items {
        *groups.entry((k.clone(), *pre)).or_default() += *pw;
    }
    let mut m = Mirror::new();
    for ((k, pre), pw) in groups {
        if pw == 0 {
            continue;
        }
        if m.insert(k, (pw, pre)).is_some() {
            return None;
        }
    }
    Some(m)
}

// ---------------------------------------------------------------- sub 1..3

#[derive(Clone, Debug, Serialize, Deserialize)]
#[serde(tag = "kind", rename_all = "snake_case")]
pub enum Case {
    Definition { variant: String },
    /// `1 <name>^n to <SI base expression>^n`: the unit keeps its dimensions and scale under a power
    DefinitionPower { variant: String, power: i32 },
    /// `1 <name> to <SI base expression of another unit's dimension>`: what a name means must not depend on the cast target
    DefinitionContext { variant: String, target: Dim },
    /// `1 N / 1 <name> to <SI base expression of N/name>`: ... nor on the target of an enclosing expression
    DefinitionDivisor { variant: String },
    Word { word: String },
    Bare { variant: String, name: String },
    Expr { text: String, parts: Vec<Part> },
    /// `<name>^<exponent literal>` with an exponent that is not a plain integer literal (`1.5`, `2.0`, `2e0`, `-0.5`):
    /// if accepted, the power applied must be exactly the literal's value.
    OddExponent { variant: String, exponent: String },
    /// `<number>/<unit>`: the number in front of the slash of a unit expression.
    UnitNumber { variant: String, number: String },
    /// Two unit expressions in ONE query (`(1 a) (1 b)`), b being a written with its blanks closed up or
    /// opened: each must be read exactly as it is read alone, in either order.
    ExprPair { a: String, b: String },
}

/// Part of a generated unit expression (so a replay does not need the generator).
#[derive(Clone, Debug, Serialize, Deserialize)]
pub struct Part {
    /// separator before this part: "" (first / juxtaposed), " ", "*", "/"
    pub sep: String,
    /// the word as typed
    pub word: String,
    /// `^n` written after the word
    pub power: Option<i32>,
    /// the exponent is written `**n`
    #[serde(default)]
    pub starstar: bool,
}

fn tool_readings(text: &str) -> Result<(Option<Mirror>, Option<Mirror>), String> {
    let a = match parse_compound(text)? {
        Ok(m) => Some(m),
        Err(_) => None,
    };
    let q = format!("1 {}", text);
    let b = match run(shared_db(), &q)? {
        v if v.len() == 1 => match &v[0] {
            R::Ok(val) => Some(val.unit.clone()),
            _ => None,
        },
        _ => None,
    };
    Ok((a, b))
}

/// Signature of a unit whose scale is none of the accepted ones.  The two open findings (Dalton, Pint: wrong values
/// pinned by the repository's own tests) are keyed on the *value* the pinned tree gives: the same unit with yet
/// another value is a different violation.
fn scale_signature(variant: &str, si: &BigRational, exponent: i64) -> String {
    let pinned: Option<BigRational> = match variant {
        "Dalton" => Some(parse_rat("332107813321/200000000000")),
        "Pint" => Some(parse_rat("473176473/250000000000")),
        _ => None,
    };
    match pinned.and_then(|p| crate::tool::rpow(&p, exponent)) {
        Some(p) if p != *si => format!("definition-scale:{}:another-value", variant),
        _ => format!("definition-scale:{}", variant),
    }
}

fn check_definition(variant: &str) -> CaseReport {
    let v = vocab();
    let u = v.unit(variant);
    let key = format!("definition:{}", variant);
    let db = shared_db();
    // the name alone is that single unit, power 1
    let mut expect = Mirror::new();
    expect.insert(u.key(), (1, u.bias));
    match parse_compound(&u.probe) {
        Err(p) => return CaseReport::fail(key, "panic", json!({"name": u.probe, "panic": p})),
        Ok(Err(e)) => return CaseReport::fail(key, format!("definition-rejected:{}", variant), json!({"name": u.probe, "error": e})),
        Ok(Ok(m)) => {
            if m != expect {
                return CaseReport::fail(key, format!("definition-reading:{}", variant), json!({"name": u.probe, "got": mirror_json(&m), "expected": mirror_json(&expect)}));
            }
        }
    }
    if u.offset {
        return CaseReport::pass(key, false, vec!["offset-scale(mirror only)"]);
    }
    let q = format!("1 {} to {}", u.probe, dim_spelling(&u.dim));
    match run(db, &q) {
        Err(p) => CaseReport::fail(key, "panic", json!({"query": q, "panic": p})),
        Ok(rs) => match rs.as_slice() {
            [R::Ok(val)] => {
                // the target must have been read as the SI base expression
                let tdim = mirror_dim(&val.unit);
                if tdim != Some(u.dim) {
                    return CaseReport::fail(key, format!("definition-dimension:{}", variant), json!({"query": q, "got": rs[0].brief(), "expected_dim": u.dim}));
                }
                let tscale = mirror_scale(&val.unit, reference_scales()).unwrap_or_else(BigRational::one);
                let si = &val.value * &tscale;
                if u.scales.iter().any(|s| *s == si) {
                    CaseReport::pass(key, !u.is_base, vec!["definition"])
                } else {
                    CaseReport::fail(
                        key,
                        scale_signature(variant, &si, 1),
                        json!({"query": q, "got": si.to_string(), "accepted": u.scales.iter().map(|s| s.to_string()).collect::<Vec<_>>()}),
                    )
                }
            }
            _ => CaseReport::fail(key, format!("definition-cast-fails:{}", variant), json!({"query": q, "got": results_json(&rs)})),
        },
    }
}

/// The definition under a power: `1 <name>^n` cast to the SI base expression of n times the
/// reference dimension must succeed and give an accepted scale raised to n (a unit whose
/// dimension table is only right at power +1 is caught here).
fn check_definition_power(variant: &str, n: i32) -> CaseReport {
    let v = vocab();
    let u = v.unit(variant);
    let key = format!("definition:{}^{}", variant, n);
    if u.offset {
        return CaseReport::pass(key, false, vec!["offset-scale(skipped)"]);
    }
    let mut dim = u.dim;
    for d in dim.iter_mut() {
        *d *= n;
    }
    let mut expect = Mirror::new();
    expect.insert(u.key(), (n, u.bias));
    let word = format!("{}^{}", u.probe, n);
    match parse_compound(&word) {
        Err(p) => return CaseReport::fail(key, "panic", json!({"name": word, "panic": p})),
        Ok(Err(e)) => return CaseReport::fail(key, format!("definition-power-rejected:{}", variant), json!({"name": word, "error": e})),
        Ok(Ok(m)) => {
            if m != expect {
                return CaseReport::fail(key, format!("definition-power-reading:{}", variant), json!({"name": word, "got": mirror_json(&m), "expected": mirror_json(&expect)}));
            }
        }
    }
    let q = format!("1 {} to {}", word, dim_spelling(&dim));
    match run(shared_db(), &q) {
        Err(p) => CaseReport::fail(key, "panic", json!({"query": q, "panic": p})),
        Ok(rs) => match rs.as_slice() {
            [R::Ok(val)] => {
                if mirror_dim(&val.unit) != Some(dim) {
                    return CaseReport::fail(key, format!("definition-power-dimension:{}", variant), json!({"query": q, "got": rs[0].brief(), "expected_dim": dim}));
                }
                let tscale = mirror_scale(&val.unit, reference_scales()).unwrap_or_else(BigRational::one);
                let si = &val.value * &tscale;
                if u.scales.iter().any(|s| crate::tool::rpow(s, n as i64).map(|x| x == si).unwrap_or(false)) {
                    CaseReport::pass(key, true, vec![if n < 0 { "definition-negative-power" } else { "definition-positive-power" }])
                } else {
                    CaseReport::fail(key, scale_signature(variant, &si, n as i64), json!({"query": q, "got": si.to_string(), "power": n, "accepted_at_power_one": u.scales.iter().map(|s| s.to_string()).collect::<Vec<_>>()}))
                }
            }
            _ => CaseReport::fail(key, format!("definition-power-cast-fails:{}", variant), json!({"query": q, "got": results_json(&rs)})),
        },
    }
}

/// A unit name in front of a cast target of any dimension: accepted exactly when the dimensions agree,
/// and then with an accepted scale (a reading that depends on the target is caught here).
fn check_definition_context(variant: &str, target: &Dim) -> CaseReport {
    let v = vocab();
    let u = v.unit(variant);
    let q = format!("1 {} to {}", u.probe, dim_spelling(target));
    let key = format!("definition:{} in front of {}", variant, dim_spelling(target));
    if u.offset {
        return CaseReport::pass(key, false, vec!["offset-scale(skipped)"]);
    }
    match run(shared_db(), &q) {
        Err(p) => CaseReport::fail(key, "panic", json!({"query": q, "panic": p})),
        Ok(rs) => match rs.as_slice() {
            [R::Ok(val)] => {
                if *target != u.dim {
                    return CaseReport::fail(key, format!("definition-context-accepted:{}", variant), json!({"query": q, "got": rs[0].brief(), "why": "the unit's dimension differs from the target's, the cast must be refused"}));
                }
                let si = &val.value * &mirror_scale(&val.unit, reference_scales()).unwrap_or_else(BigRational::one);
                if mirror_dim(&val.unit) == Some(u.dim) && u.scales.iter().any(|s| *s == si) {
                    CaseReport::pass(key, true, vec!["definition-in-cast-context(same dimension)"])
                } else {
                    CaseReport::fail(key, scale_signature(variant, &si, 1), json!({"query": q, "got": si.to_string()}))
                }
            }
            [R::Err { .. }] => {
                if *target == u.dim {
                    CaseReport::fail(key, format!("definition-cast-fails:{}", variant), json!({"query": q, "got": results_json(&rs)}))
                } else {
                    CaseReport::pass(key, true, vec!["definition-in-cast-context(refused)"])
                }
            }
            _ => CaseReport::fail(key, "result-count", json!({"query": q, "got": results_json(&rs)})),
        },
    }
}

/// The name as a divisor inside an expression that is cast as a whole: `1 N / 1 <name> to <N/name in SI base units>`.
fn check_definition_divisor(variant: &str) -> CaseReport {
    let v = vocab();
    let u = v.unit(variant);
    let key = format!("definition:N / {}", variant);
    if u.offset {
        return CaseReport::pass(key, false, vec!["offset-scale(skipped)"]);
    }
    let newton: Dim = [1, 1, -2, 0, 0, 0, 0, 0];
    let dim = dim_add(&newton, &u.dim, -1);
    if dim == ZERO_DIM {
        return CaseReport::pass(key, false, vec!["dimensionless-quotient(skipped)"]);
    }
    let q = format!("1 N / 1 {} to {}", u.probe, dim_spelling(&dim));
    match run(shared_db(), &q) {
        Err(p) => CaseReport::fail(key, "panic", json!({"query": q, "panic": p})),
        Ok(rs) => match rs.as_slice() {
            [R::Ok(val)] => {
                let si = &val.value * &mirror_scale(&val.unit, reference_scales()).unwrap_or_else(BigRational::one);
                if mirror_dim(&val.unit) == Some(dim) && u.scales.iter().any(|s| s.recip() == si) {
                    CaseReport::pass(key, true, vec!["definition-as-divisor"])
                } else {
                    CaseReport::fail(key, scale_signature(variant, &si, -1), json!({"query": q, "got": si.to_string(), "accepted": u.scales.iter().map(|s| s.recip().to_string()).collect::<Vec<_>>()}))
                }
            }
            _ => CaseReport::fail(key, format!("definition-divisor-cast-fails:{}", variant), json!({"query": q, "got": results_json(&rs)})),
        },
    }
}

fn check_word(word: &str) -> CaseReport {
    let (a, b) = match tool_readings(word) {
        Ok(x) => x,
        Err(p) => return CaseReport::fail(word, "panic", json!({"word": word, "panic": p})),
    };
    if a != b {
        return CaseReport::fail(word, "entry-points-disagree", json!({"word": word, "parse_compound": a.as_ref().map(mirror_json), "query": b.as_ref().map(mirror_json)}));
    }
    let segs = segmentations(word, 400);
    let readings: BTreeSet<Mirror> = segs.iter().filter_map(|s| fold(&s.iter().map(|i| (i.clone(), 1)).collect::<Vec<_>>())).collect();
    match a {
        None => CaseReport::pass(word, false, vec!["rejected"]),
        Some(m) => {
            if readings.contains(&m) {
                let mut classes = vec!["accepted"];
                if readings.len() > 1 {
                    classes.push("ambiguous-word");
                }
                let nt = m.values().any(|(_, pre)| *pre != 0) || m.len() > 1;
                CaseReport::pass(word, nt, classes)
            } else {
                CaseReport::fail(
                    word,
                    format!("misread-word:{}", word),
                    json!({"word": word, "got": mirror_json(&m), "valid_readings": readings.iter().map(mirror_json).collect::<Vec<_>>()}),
                )
            }
        }
    }
}

fn check_bare(variant: &str, name: &str) -> CaseReport {
    let v = vocab();
    let u = v.unit(variant);
    let key = format!("bare:{}", name);
    let mut expect = Mirror::new();
    expect.insert(u.key(), (1, u.bias));
    let (a, b) = match tool_readings(name) {
        Ok(x) => x,
        Err(p) => return CaseReport::fail(key, "panic", json!({"name": name, "panic": p})),
    };
    if a.as_ref() != Some(&expect) || b.as_ref() != Some(&expect) {
        return CaseReport::fail(
            key,
            format!("bare-name:{}", name),
            json!({"name": name, "variant": variant, "expected": mirror_json(&expect), "parse_compound": a.as_ref().map(mirror_json), "query": b.as_ref().map(mirror_json)}),
        );
    }
    CaseReport::pass(key, true, vec!["bare-name"])
}

// ------------------------------------------------------------- expressions

fn render_parts(parts: &[Part]) -> String {
    let mut s = String::new();
    for p in parts {
        s.push_str(&p.sep);
        s.push_str(&p.word);
        if let Some(n) = p.power {
            s.push_str(&format!("{}{}", if p.starstar { "**" } else { "^" }, n));
        }
    }
    s
}

/// Known open finding (known_findings.json, logos fallback): when the unit
/// lexer starts a longer token, fails, and falls back to a shorter one it keeps
/// the longer span and swallows characters (`dal`, `zeV`, `graBc`).  A word is
/// backtrack-prone if at some position a documented token matches partially
/// beyond the longest complete match.  Such words are excluded from the
/// generated-expression sub-check by construction (and counted); the
/// vocabulary sub-check still judges every single `[prefix]name` word.
pub fn backtrack_prone(text: &str) -> bool {
    let v = vocab();
    let units: Vec<&str> = v.units.iter().flat_map(|u| u.names.iter().map(|s| s.as_str())).collect();
    let prefixes: Vec<&str> = v.prefixes.iter().flat_map(|p| p.names.iter().map(|s| s.as_str())).collect();
    // (longest complete match, longest partial match beyond a complete one?)
    let scan = |rest: &str, toks: &mut dyn Iterator<Item = &str>| -> (usize, bool) {
        let mut complete = 0usize;
        let mut partial = 0usize;
        for t in toks {
            if rest.starts_with(t) {
                complete = complete.max(t.len());
            } else {
                let common = rest.bytes().zip(t.bytes()).take_while(|(a, b)| a == b).count();
                partial = partial.max(common);
            }
        }
        (complete, complete > 0 && partial > complete)
    };
    // follow the ideal longest-match lexing (combined lexer, then unit lexer
    // after a prefix); the tool's lexing equals it up to the first backtrack
    let mut pos = 0usize;
    while pos < text.len() {
        let rest = &text[pos..];
        let (len, prone) = scan(rest, &mut units.iter().copied().chain(prefixes.iter().copied()));
        if prone {
            return true;
        }
        if len == 0 {
            return false;
        }
        let tok = &rest[..len];
        let is_unit = units.contains(&tok);
        let is_prefix = prefixes.contains(&tok);
        pos += len;
        if is_prefix && !(is_unit && pos == text.len()) {
            // a unit name must follow (unit-only lexer)
            let rest = &text[pos..];
            let (ulen, prone) = scan(rest, &mut units.iter().copied());
            if prone {
                return true;
            }
            if ulen == 0 {
                // not a prefix after all: when the token is also a unit name the
                // tool has no second chance, it rejects
                return false;
            }
            pos += ulen;
        }
    }
    false
}

struct Run {
    sep: String,
    text: String,
    power: Option<i32>,
}

fn runs_of(parts: &[Part]) -> Vec<Run> {
    let mut runs: Vec<Run> = Vec::new();
    for p in parts {
        if p.sep.is_empty() && !runs.is_empty() && runs.last().unwrap().power.is_none() {
            let r = runs.last_mut().unwrap();
            r.text.push_str(&p.word);
            r.power = p.power;
        } else {
            // a juxtaposed word after `^n` starts a new run glued to the number: `m^2s` is
            // lexed as NUMBER `2` followed by WORD `s`, i.e. a new word
            runs.push(Run { sep: p.sep.clone(), text: p.word.clone(), power: p.power });
        }
    }
    runs
}

fn check_expr(parts: &[Part]) -> CaseReport {
    let text = render_parts(parts);
    let runs = runs_of(parts);
    if runs.iter().any(|r| backtrack_prone(&r.text)) {
        return CaseReport::discard(&text, "excluded-by-construction(lexer backtracking position: known finding)");
    }
    let (a, b) = match tool_readings(&text) {
        Ok(x) => x,
        Err(p) => return CaseReport::fail(&text, "panic", json!({"text": text, "panic": p})),
    };
    if a != b {
        return CaseReport::fail(&text, "entry-points-disagree", json!({"text": text, "parse_compound": a.as_ref().map(mirror_json), "query": b.as_ref().map(mirror_json)}));
    }
    // reference semantics: is the tool's reading one of the documented readings?
    let v = vocab();
    let all_bare = runs.iter().all(|r| v.units.iter().any(|u| u.names.iter().any(|n| *n == r.text)));
    let mut signs = Vec::new();
    let mut sign = 1;
    for r in &runs {
        if r.sep == "/" {
            sign = -sign;
        }
        signs.push(sign);
    }
    let mut ambiguous = false;
    for r in &runs {
        let segs = segmentations(&r.text, 2);
        if segs.is_empty() {
            // no documented reading at all: the tool must not accept it
            return match a {
                None => CaseReport::pass(&text, true, vec!["rejected-no-reading"]),
                Some(m) => CaseReport::fail(&text, "accepts-word-without-documented-reading", json!({"text": text, "word": r.text, "got": mirror_json(&m)})),
            };
        }
        if segs.len() > 1 {
            ambiguous = true;
        }
    }
    let mut classes = vec![];
    if runs.iter().any(|p| p.sep == "/") {
        classes.push("slash");
    }
    if runs.iter().filter(|p| p.sep == "/").count() >= 2 {
        classes.push("two-slashes");
    }
    if runs.iter().any(|p| p.power.is_some()) {
        classes.push("power");
    }
    if runs.len() < parts.len() {
        classes.push("juxtaposed");
    }
    if ambiguous {
        classes.push("ambiguous-word");
    }
    let nt = runs.iter().any(|p| p.sep == "/" || p.power.is_some()) || parts.len() > 1;
    match a {
        None => {
            // Refusal is legitimate unless every word is a documented bare unit name
            // (those must be accepted) and their product has no prefix conflict.
            if all_bare {
                let items: Vec<(Item, i32)> = runs
                    .iter()
                    .zip(signs.iter())
                    .map(|(r, sg)| {
                        let u = v.units.iter().find(|u| u.names.iter().any(|n| *n == r.text)).unwrap();
                        ((u.key(), u.bias), r.power.unwrap_or(1) * sg)
                    })
                    .collect();
                if let Some(m) = fold(&items) {
                    return CaseReport::fail(&text, "valid-unit-expression-rejected", json!({"text": text, "expected": mirror_json(&m)}));
                }
            }
            classes.push("rejected");
            CaseReport::pass(&text, nt, classes)
        }
        Some(m) => {
            let mut budget = 300_000usize;
            let mut acc: Vec<(Item, i32)> = Vec::new();
            match member(&runs, &signs, 0, 0, &mut acc, &m, &mut budget) {
                Some(true) => {
                    classes.push("accepted");
                    CaseReport::pass(&text, nt, classes)
                }
                Some(false) => {
                    let sample: Vec<_> = runs.iter().map(|r| segmentations(&r.text, 3)).collect();
                    CaseReport::fail(
                        &text,
                        "unit-expression-misread",
                        json!({"text": text, "got": mirror_json(&m), "some_documented_segmentations_per_word": sample.iter().map(|ss| ss.iter().map(|s| s.iter().map(|(k, p)| (ukey_text(k), *p)).collect::<Vec<_>>()).collect::<Vec<_>>()).collect::<Vec<_>>()}),
                    )
                }
                None => CaseReport::discard(&text, "segmentation-search-budget-exhausted"),
            }
        }
    }
}

/// Depth-first search over the documented segmentations of all runs for one
/// whose folded reading equals `target`.  Some(true) found, Some(false)
/// exhausted, None budget exceeded.
fn member(runs: &[Run], signs: &[i32], ri: usize, pos: usize, acc: &mut Vec<(Item, i32)>, target: &Mirror, budget: &mut usize) -> Option<bool> {
    if *budget == 0 {
        return None;
    }
    *budget -= 1;
    if ri == runs.len() {
        return Some(fold(acc).as_ref() == Some(target));
    }
    let run = &runs[ri];
    let rest = &run.text[pos..];
    if rest.is_empty() {
        // apply ^n to the last unit of the word
        if pos == 0 {
            return Some(false);
        }
        let last = acc.len() - 1;
        let saved = acc[last].1;
        acc[last].1 = saved * run.power.unwrap_or(1);
        let r = member(runs, signs, ri + 1, 0, acc, target, budget);
        acc[last].1 = saved;
        return r;
    }
    let v = vocab();
    // candidate items at this position, those consistent with the target first
    let mut cands: Vec<(Item, usize, bool)> = Vec::new();
    for u in &v.units {
        for name in &u.names {
            if rest.starts_with(name.as_str()) {
                let it = (u.key(), u.bias);
                let ok = target.get(&it.0).map(|(_, pre)| *pre == it.1).unwrap_or(false);
                cands.push((it, name.len(), ok));
            }
        }
    }
    for p in &v.prefixes {
        for pn in &p.names {
            if let Some(r1) = rest.strip_prefix(pn.as_str()) {
                for u in &v.units {
                    for name in &u.names {
                        if r1.starts_with(name.as_str()) {
                            let it = (u.key(), p.exp + u.bias);
                            let ok = target.get(&it.0).map(|(_, pre)| *pre == it.1).unwrap_or(false);
                            cands.push((it, pn.len() + name.len(), ok));
                        }
                    }
                }
            }
        }
    }
    cands.sort_by_key(|c| !c.2);
    let mut capped = false;
    for (it, len, _) in cands {
        acc.push((it, signs[ri]));
        let r = member(runs, signs, ri, pos + len, acc, target, budget);
        acc.pop();
        match r {
            Some(true) => return Some(true),
            Some(false) => {}
            None => {
                capped = true;
                break;
            }
        }
    }
    if capped {
        None
    } else {
        Some(false)
    }
}

fn any_word() -> impl Strategy<Value = String> {
    // any typable vocabulary word (safe or not), weighted towards short symbols
    (any::<u16>(), any::<bool>()).prop_map(|(i, short)| {
        let w = words();
        let pool: Vec<&WordInfo> = if short { w.all.iter().filter(|x| x.word.text.chars().count() <= 3).collect() } else { w.all.iter().collect() };
        pool[pick_idx(i, pool.len())].word.text.clone()
    })
}

fn expr_parts(max_power: i32) -> impl Strategy<Value = Vec<Part>> {
    let part = (any_word(), prop_oneof![3 => Just("*"), 2 => Just(" "), 2 => Just("/"), 1 => Just("")], prop::option::weighted(0.35, -max_power..=max_power), prop::bool::weighted(0.2));
    prop::collection::vec(part, 1..=4).prop_map(|v| {
        v.into_iter()
            .enumerate()
            .map(|(i, (word, sep, power, starstar))| Part { sep: if i == 0 { String::new() } else { sep.to_string() }, word, power, starstar })
            .collect()
    })
}

fn reading_alone(text: &str) -> Result<Option<Mirror>, String> {
    let q = format!("1 {}", text);
    Ok(match run(shared_db(), &q)?.as_slice() {
        [R::Ok(v)] => Some(v.unit.clone()),
        _ => None,
    })
}

fn check_expr_pair(a: &str, b: &str) -> CaseReport {
    let key = format!("({}) ({})", a, b);
    let (ra, rb) = match (reading_alone(a), reading_alone(b)) {
        (Ok(x), Ok(y)) => (x, y),
        (Err(p), _) | (_, Err(p)) => return CaseReport::fail(key, "panic", json!({"a": a, "b": b, "panic": p})),
    };
    for (x, y, rx, ry) in [(a, b, &ra, &rb), (b, a, &rb, &ra)] {
        let q = format!("(1 {}) (1 {})", x, y);
        let rs = match run(shared_db(), &q) {
            Ok(r) => r,
            Err(p) => return CaseReport::fail(key, "panic", json!({"query": q, "panic": p})),
        };
        if rs.len() != 2 {
            return CaseReport::fail(key, "result-count", json!({"query": q, "got": results_json(&rs)}));
        }
        for (i, (r, alone, text)) in [(&rs[0], rx, x), (&rs[1], ry, y)].into_iter().enumerate() {
            let got = match r {
                R::Ok(v) => Some(v.unit.clone()),
                _ => None,
            };
            if got != *alone {
                return CaseReport::fail(
                    key,
                    "unit-expression-read-differently-next-to-another",
                    json!({"query": q, "result": i, "expression": text, "read_here": got.as_ref().map(mirror_json), "read_alone": alone.as_ref().map(mirror_json)}),
                );
            }
        }
    }
    let differ = ra != rb;
    CaseReport::pass(key, differ, vec![if differ { "pair-with-different-readings" } else { "pair-with-equal-readings" }])
}

fn check_odd_exponent(variant: &str, exponent: &str) -> CaseReport {
    let v = vocab();
    let u = v.unit(variant);
    let text = format!("{}^{}", u.probe, exponent);
    let key = format!("odd-exponent:{}", text);
    let value = match crate::decimal::parse_literal(exponent) {
        Some(x) => x,
        None => return CaseReport::discard(key, "ill-formed exponent literal"),
    };
    let (a, b) = match tool_readings(&text) {
        Ok(x) => x,
        Err(p) => return CaseReport::fail(key, "panic", json!({"text": text, "panic": p})),
    };
    for (entry, reading) in [("str::parse::<Compound>", &a), ("query", &b)] {
        if let Some(m) = reading {
            // accepted: the unit must carry exactly the power the literal spells
            let want: Option<i32> = if value.is_integer() { value.to_integer().to_string().parse().ok() } else { None };
            let ok = match want {
                Some(0) => m.is_empty(),
                Some(n) => m.len() == 1 && m.get(&u.key()).map(|(p, _)| *p) == Some(n),
                None => false,
            };
            if !ok {
                return CaseReport::fail(key, "unit-exponent-not-the-value-written", json!({"text": text, "entry_point": entry, "exponent_value": value.to_string(), "read_as": mirror_json(m)}));
            }
        }
    }
    CaseReport::pass(key, true, vec![if a.is_some() || b.is_some() { "odd-exponent(accepted with its exact value)" } else { "odd-exponent(refused)" }])
}

/// `<number>/<unit>` as a unit expression: a reciprocal unit is written `1/s`.  Any other number in that place
/// is refused or — if an entry point accepts it — must be read as the unit to the power minus one and nothing
/// else only when the number's value is one; a number that is not one cannot silently disappear.
fn check_unit_number(variant: &str, number: &str) -> CaseReport {
    let v = vocab();
    let u = v.unit(variant);
    let text = format!("{}/{}", number, u.probe);
    let key = format!("unit-number:{}", text);
    let value = match crate::decimal::parse_literal(number) {
        Some(x) => x,
        None => return CaseReport::discard(key, "ill-formed number literal"),
    };
    let (a, b) = match tool_readings(&text) {
        Ok(x) => x,
        Err(p) => return CaseReport::fail(key, "panic", json!({"text": text, "panic": p})),
    };
    let one = value == crate::tool::big(1);
    for (entry, reading) in [("str::parse::<Compound>", &a), ("query", &b)] {
        if let Some(m) = reading {
            let recip = m.len() == 1 && m.get(&u.key()).map(|(p, _)| *p) == Some(-1);
            if !one || !recip {
                return CaseReport::fail(key, "unit-number-dropped-or-misread", json!({"text": text, "entry_point": entry, "number_value": value.to_string(), "read_as": mirror_json(m)}));
            }
        }
    }
    CaseReport::pass(key, true, vec![if a.is_some() || b.is_some() { "unit-number(one, accepted)" } else { "unit-number(refused)" }])
}

fn check(c: &Case) -> CaseReport {
    match c {
        Case::UnitNumber { variant, number } => check_unit_number(variant, number),
        Case::OddExponent { variant, exponent } => check_odd_exponent(variant, exponent),
        Case::ExprPair { a, b } => check_expr_pair(a, b),
        Case::Definition { variant } => check_definition(variant),
        Case::DefinitionPower { variant, power } => check_definition_power(variant, *power),
        Case::DefinitionContext { variant, target } => check_definition_context(variant, target),
        Case::DefinitionDivisor { variant } => check_definition_divisor(variant),
        Case::Word { word } => check_word(word),
        Case::Bare { variant, name } => check_bare(variant, name),
        Case::Expr { parts, .. } => check_expr(parts),
    }
}

pub fn run_check(ctx: &Ctx) {
    ctx.set_rule("(1) all 86 unit definitions: `1 <name> to <SI base expression>` must equal an accepted standard scale — also under powers, in front of every target dimension of the vocabulary (accepted exactly when the dimensions agree) and as a divisor inside a cast expression (hand-written table: SI brochure, 1959 yard/pound agreement, NIST HB44, CODATA, IAU); (2) every typable [prefix]name word of data.toml: if accepted, its reading must be one of the segmentations of the word into documented prefix/unit names, and both entry points must agree; (3) every typable unit name alone denotes its own variant; (4) generated unit expressions (juxtaposition, blanks, * / ^n) against the stated semantics; (5) `<number>/<unit>` for 14 number spellings on every unit: refused, or read as the reciprocal unit and only when the number's value is one; fractional and decimal exponent spellings on every unit: refused, or read with the exact integer value; (6) pairs of unit expressions that differ only in where blanks stand, evaluated in one query in both orders: each must be read as it is read alone; non-trivial = prefixed or multi-unit word, expression with / or ^ or several words; distinct by text");
    ctx.assume("accepted-scale sets are deliberately generous (several national definitions per name); untypable names (μ, Ω, g-force) are skipped and counted");
    let corpus: Vec<(String, Case)> = load_corpus("C05");
    let cases: Vec<Case> = corpus.into_iter().map(|c| c.1).collect();
    ctx.run_list("corpus", &cases, check, |c| to_json(c));

    let v = vocab();
    let defs: Vec<Case> = v.units.iter().map(|u| Case::Definition { variant: u.variant.clone() }).collect();
    ctx.run_list("definitions", &defs, check, |c| to_json(c));
    // numbers other than a plain `1` in front of the slash of a unit expression
    let nums: Vec<Case> = v.units.iter().flat_map(|u| ["1", "01", "+1", "0", "2", "3", "10", "-1", "1.0", "1e0", "0.5", "100%", "1.5", "11"].iter().map(move |n| Case::UnitNumber { variant: u.variant.clone(), number: n.to_string() })).collect();
    ctx.run_list("unit-numbers", &nums, check, |c| to_json(c));
    let powers: &[i32] = ctx.tier.pick(&[-3, -2, -1, 2, 3][..], &[-6, -5, -4, -3, -2, -1, 2, 3, 4, 5, 6][..]);
    let defp: Vec<Case> = v.units.iter().flat_map(|u| powers.iter().map(move |n| Case::DefinitionPower { variant: u.variant.clone(), power: *n })).collect();
    ctx.run_list("definitions-under-powers", &defp, check, |c| to_json(c));
    // exponents that are not plain integer literals
    let odd: Vec<Case> = v
        .units
        .iter()
        .flat_map(|u| ["1.5", "2.5", "-0.5", "0.5", "2.0", "2e0", "1.9", "-1.5", "3.", "1e-1", "0.999999999999", "1.0000000001", "2147483647", "-2147483648", "2147483648", "-2147483649", "4294967297", "4294967298", "18446744073709551617", "65536", "65537", "-129", "256", "+2", "02"].iter().map(move |e| Case::OddExponent { variant: u.variant.clone(), exponent: e.to_string() }))
        .collect();
    ctx.run_list("odd-exponents", &odd, check, |c| to_json(c));
    // every name in front of every dimension that occurs in the vocabulary, and as a divisor under a cast
    let dims: BTreeSet<Dim> = v.units.iter().filter(|u| !u.offset).map(|u| u.dim).collect();
    ctx.put("target_dimensions", json!(dims.len()));
    let defc: Vec<Case> = v.units.iter().flat_map(|u| dims.iter().map(move |d| Case::DefinitionContext { variant: u.variant.clone(), target: *d })).collect();
    ctx.run_list("definitions-in-cast-context", &defc, check, |c| to_json(c));
    let defd: Vec<Case> = v.units.iter().map(|u| Case::DefinitionDivisor { variant: u.variant.clone() }).collect();
    ctx.run_list("definitions-as-divisor", &defd, check, |c| to_json(c));

    let w = words();
    ctx.put("vocabulary_words", json!(w.all.len()));
    ctx.put("untypable_words_skipped", json!(w.untypable));
    ctx.put("safe_words", json!(w.all.iter().filter(|x| x.safe).count()));
    ctx.run_enum("vocabulary", w.all.len() as u64, |i| Some(Case::Word { word: w.all[i as usize].word.text.clone() }), check, |c| to_json(c));

    let mut bare = Vec::new();
    let mut skipped = 0;
    for u in &v.units {
        for n in &u.names {
            if typable_word(n) {
                bare.push(Case::Bare { variant: u.variant.clone(), name: n.clone() });
            } else {
                skipped += 1;
            }
        }
    }
    ctx.put("untypable_names_skipped", json!(skipped));
    ctx.run_list("bare-names", &bare, check, |c| to_json(c));
    ctx.exhaustive.store(true, std::sync::atomic::Ordering::Relaxed);
    ctx.put("exhaustive_scope", json!("sub-checks definitions, vocabulary and bare-names are complete enumerations of data.toml"));

    let n = ctx.tier.pick(60_000u64, 1_500_000);
    let maxp = ctx.tier.pick(9, 12);
    ctx.run_gen(
        "expressions",
        || expr_parts(maxp).prop_map(|parts| Case::Expr { text: render_parts(&parts), parts }),
        n,
        check,
        |c| to_json(c),
    );
    ctx.run_gen(
        "expression-pairs-in-one-query",
        || {
            expr_parts(3).prop_map(|parts| {
                // b = a with every blank closed up and every juxtaposition opened
                let mut other = parts.clone();
                for p in other.iter_mut().skip(1) {
                    if p.sep == " " {
                        p.sep = String::new();
                    } else if p.sep.is_empty() {
                        p.sep = " ".to_string();
                    }
                }
                Case::ExprPair { a: render_parts(&parts), b: render_parts(&other) }
            })
        },
        n / 4,
        check,
        |c| to_json(c),
    );
    // ... and exhaustively for every pair of short words (<= 2 characters) whose juxtaposition is itself a
    // word the tool accepts with another reading (`m s` / `ms`, `T m` / `Tm`, `h a` / `ha`)
    {
        let short: Vec<&str> = w.all.iter().filter(|x| x.tool_reading.is_some() && x.word.text.chars().count() <= 2).map(|x| x.word.text.as_str()).collect();
        let mut pairs: Vec<Case> = Vec::new();
        for x in &short {
            for y in &short {
                let glued = format!("{}{}", x, y);
                let apart = format!("{} {}", x, y);
                if let (Ok(Ok(g)), Ok(Ok(a))) = (parse_compound(&glued), parse_compound(&apart)) {
                    if g != a {
                        pairs.push(Case::ExprPair { a: apart, b: glued });
                    }
                }
            }
        }
        ctx.put("confusable_juxtapositions", json!(pairs.len()));
        ctx.run_list("confusable-juxtapositions-in-one-query", &pairs, check, |c| to_json(c));
    }
    if ctx.tier == crate::runner::Tier::Thorough {
        // all 2-unit concatenations of short bare names
        let short: Vec<String> = v.units.iter().flat_map(|u| u.names.iter()).filter(|n| typable_word(n) && n.chars().count() <= 3).cloned().collect();
        let k = short.len() as u64;
        ctx.run_enum(
            "two-unit-concatenations",
            k * k,
            |i| {
                let a = &short[(i / k) as usize];
                let b = &short[(i % k) as usize];
                let parts = vec![Part { sep: String::new(), word: format!("{}{}", a, b), power: None, starstar: false }];
                Some(Case::Expr { text: render_parts(&parts), parts })
            },
            check,
            |c| to_json(c),
        );
    }
    let _ = (dim_add, ZERO_DIM);
}

pub fn replay(ctx: &Ctx, case: &Value) {
    let c: Case = serde_json::from_value(case.clone()).expect("replay file holds a C05 case");
    ctx.run_list("replay", &[c], check, |c| to_json(c));
}
