//! C14 Fact lookups do not depend on how the index was built.

use super::common::*;
use crate::facts::{facts, phrase, typable};
use crate::probe::answer;
use crate::runner::{guarded, CaseReport, Ctx, Tier};
use anything::Db;
use serde::{Deserialize, Serialize};
use serde_json::{json, Value};
use std::collections::{BTreeMap, BTreeSet};
use std::path::{Path, PathBuf};
use std::process::Command;

#[derive(Clone, Debug, Serialize, Deserialize)]
pub struct Disagreement {
    pub query: String,
    pub answers: BTreeMap<String, Vec<String>>,
}

fn mix(a: u64, b: u64) -> u64 {
    let mut x = a.wrapping_mul(0x9E3779B97F4A7C15) ^ b.wrapping_add(0x7F4A7C15);
    x = (x ^ (x >> 29)).wrapping_mul(0xBF58476D1CE4E5B9);
    x ^ (x >> 32)
}

/// The query set and, per query, whether >= 2 shipped constants carry all its words.
pub fn query_set(tier: Tier, seed: u64) -> Vec<(String, bool)> {
    let f = facts();
    let mut qs: BTreeSet<String> = BTreeSet::new();
    let typ: Vec<&crate::facts::Fact> = f.all.iter().filter(|x| typable(&x.tokens)).collect();
    for x in &typ {
        qs.insert(phrase(&x.tokens));
    }
    let mut tokens: BTreeSet<String> = BTreeSet::new();
    for x in &typ {
        for t in &x.tokens {
            tokens.insert(t.clone());
        }
    }
    let toks: Vec<&String> = tokens.iter().collect();
    for t in &toks {
        if !t.chars().next().unwrap().is_ascii_digit() {
            qs.insert((*t).clone());
        }
    }
    // every 1..7 character prefix of every token: with the index's prefix-only 1..7-grams these are
    // exactly the distinct terms a one-word query can hit, so ties between constants of different data
    // files (which only depend on the order the files were indexed in) cannot hide behind sampling
    for t in &toks {
        let chars: Vec<char> = t.chars().collect();
        for n in 1..=chars.len().min(7) {
            let p: String = chars[..n].iter().collect();
            if !p.chars().next().unwrap().is_ascii_digit() && p != "to" && crate::facts::typable(&[p.clone()]) {
                qs.insert(p);
            }
        }
    }
    // two short prefixes (ambiguous by construction), sampled
    let nprefix = tier.pick(600usize, 6000);
    for i in 0..nprefix {
        let a = toks[(mix(seed, i as u64) % toks.len() as u64) as usize];
        let b = toks[(mix(seed ^ 5, i as u64) % toks.len() as u64) as usize];
        let na = 1 + (mix(seed ^ 77, i as u64) % 4) as usize;
        let nb = 1 + (mix(seed ^ 78, i as u64) % 4) as usize;
        let pa: String = a.chars().take(na).collect();
        let pb: String = b.chars().take(nb).collect();
        if !pa.chars().next().unwrap().is_ascii_digit() && pa != "to" && pb != "to" && crate::facts::typable(&[pa.clone(), pb.clone()]) {
            qs.insert(format!("{} {}", pa, pb));
        }
    }
    // random token pairs
    let npairs = tier.pick(400usize, 4000);
    for i in 0..npairs {
        let a = toks[(mix(seed ^ 1, i as u64) % toks.len() as u64) as usize];
        let b = toks[(mix(seed ^ 2, i as u64) % toks.len() as u64) as usize];
        if !a.chars().next().unwrap().is_ascii_digit() && a != "to" && b != "to" {
            qs.insert(format!("{} {}", a, b));
        }
    }
    // classification of the INPUT: how many constants carry all words (prefix match, case-insensitive)
    let lowered: Vec<Vec<String>> = f.all.iter().map(|x| x.tokens.iter().map(|t| t.to_lowercase()).collect()).collect();
    qs.into_iter()
        .map(|q| {
            let ws: Vec<String> = q.split(' ').map(|w| w.to_lowercase()).collect();
            let n = lowered.iter().filter(|toks| ws.iter().all(|w| toks.iter().any(|t| t.starts_with(w.as_str())))).count();
            (q, n >= 2)
        })
        .collect()
}

pub struct Session {
    pub name: String,
    pub answers: Vec<String>,
}

pub fn dbprobe_path() -> PathBuf {
    std::env::current_exe().unwrap().parent().unwrap().join("dbprobe")
}

/// Run dbprobe in a child process; `Err(status text)` if it did not exit 0.
pub fn run_probe(mode: &str, xdg: &Path, queries_file: &Path, env: &[(&str, String)], taskset: Option<&str>) -> Result<Vec<String>, String> {
    let mut cmd = match taskset {
        Some(spec) if spec.starts_with("strace:") => {
            // strace:<syscall>@<n> : kill the process (SIGKILL) at the n-th call of that system call (per thread)
            let (sc, n) = spec["strace:".len()..].split_once('@').unwrap_or(("write", "1"));
            let mut c = Command::new("strace");
            c.arg("-f").arg("-qq").arg("-o").arg("/dev/null").arg("-e").arg(format!("trace={}", sc)).arg("-e").arg(format!("inject={}:signal=SIGKILL:when={}", sc, n)).arg(dbprobe_path());
            c
        }
        Some(cpus) => {
            let mut c = Command::new("taskset");
            c.arg("-c").arg(cpus).arg(dbprobe_path());
            c
        }
        None => Command::new(dbprobe_path()),
    };
    let (mode, extra) = match mode.split_once(':') {
        Some((m, x)) => (m, Some(x)),
        None => (mode, None),
    };
    cmd.arg(mode).arg(queries_file);
    if let Some(x) = extra {
        cmd.arg(x);
    }
    cmd.env("XDG_DATA_HOME", xdg).env_remove("RUST_LOG").env_remove("ANYTHING_VERIF_CRASH");
    for (k, v) in env {
        cmd.env(k, v);
    }
    let out = cmd.output().map_err(|e| format!("spawn failed: {}", e))?;
    if !out.status.success() {
        use std::os::unix::process::ExitStatusExt;
        if let Some(sig) = out.status.signal() {
            return Err(format!("signal: {}", sig));
        }
        return Err(format!("{:?} stdout={} stderr={}", out.status, String::from_utf8_lossy(&out.stdout).chars().take(300).collect::<String>(), String::from_utf8_lossy(&out.stderr).chars().take(300).collect::<String>()));
    }
    Ok(String::from_utf8_lossy(&out.stdout).lines().map(|l| l.to_string()).collect())
}

pub fn run_check(ctx: &Ctx) {
    ctx.set_rule("histories of sessions (repeated in-memory builds in this process, sequentially and concurrently from several threads; child processes pinned to 1, 2 and all CPUs, with and without a busy background load; cold child processes that open 2-16 in-memory sessions at the same moment; one database shared by 4-16 threads looking things up concurrently; a first on-disk build under a private XDG_DATA_HOME, a reopen of it, a rebuild over it after the stored hash was made stale) all answer the same query set (every typable fact's own words, every single word, every 1-7 character prefix of every word (all terms of the prefix n-gram index), sampled pairs of short prefixes, random word pairs); oracle: for every query all sessions return the same outcome (constant description, value, unit, source, tokens, or the same error); non-trivial = queries whose words are all carried by >= 2 shipped constants; distinct by query text; an evaluation is one (session, query) answer");
    ctx.assume("the schedule of tantivy's indexing threads is sampled by repetition, CPU pinning and background load, not enumerated");
    let qs = query_set(ctx.tier, ctx.seed);
    let queries: Vec<String> = qs.iter().map(|q| q.0.clone()).collect();
    let work = PathBuf::from(format!("{}/build/xdg/C14-{}", crate::runner::verif_root(), std::process::id()));
    let _ = std::fs::remove_dir_all(&work);
    std::fs::create_dir_all(&work).unwrap();
    let qfile = work.join("queries.txt");
    std::fs::write(&qfile, queries.join("\n")).unwrap();
    let mut sessions: Vec<Session> = Vec::new();
    let mut problems: Vec<String> = Vec::new();

    let in_proc = |name: String| -> Result<Session, String> {
        guarded(&name, || {
            let db = Db::in_memory().map_err(|e| e.to_string())?;
            Ok(Session { name: name.clone(), answers: queries.iter().map(|q| answer(&db, q)).collect() })
        })
        .unwrap_or_else(|p| Err(format!("panic: {}", p)))
    };
    // sequential in-memory builds
    let nseq = ctx.tier.pick(6usize, 60);
    for i in 0..nseq {
        match in_proc(format!("in-memory#{}", i)) {
            Ok(s) => sessions.push(s),
            Err(e) => problems.push(e),
        }
    }
    // concurrent in-memory builds
    let rounds = ctx.tier.pick(1usize, 8);
    for r in 0..rounds {
        let got: Vec<Result<Session, String>> = std::thread::scope(|s| {
            let hs: Vec<_> = (0..8).map(|i| s.spawn(move || in_proc(format!("in-memory-concurrent#{}.{}", r, i)))).collect();
            hs.into_iter().map(|h| h.join().unwrap()).collect()
        });
        for g in got {
            match g {
                Ok(s) => sessions.push(s),
                Err(e) => problems.push(e),
            }
        }
    }
    // child processes under varied CPU affinity and load
    let ncpu = std::thread::available_parallelism().map(|n| n.get()).unwrap_or(4);
    let affinities: Vec<Option<String>> = vec![Some("0".to_string()), Some("0,1".to_string()), None, Some(format!("0-{}", ncpu - 1))];
    let reps = ctx.tier.pick(1usize, 12);
    for rep in 0..reps {
        for (ai, aff) in affinities.iter().enumerate() {
            for loaded in [false, true] {
                // background load: busy threads in this process while the child builds
                let stop = std::sync::atomic::AtomicBool::new(false);
                let res = std::thread::scope(|s| {
                    if loaded {
                        for _ in 0..ncpu {
                            s.spawn(|| {
                                let mut x = 1u64;
                                while !stop.load(std::sync::atomic::Ordering::Relaxed) {
                                    x = x.wrapping_mul(6364136223846793005).wrapping_add(1);
                                    std::hint::black_box(x);
                                }
                            });
                        }
                    }
                    let r = run_probe("mem", &work, &qfile, &[], aff.as_deref());
                    stop.store(true, std::sync::atomic::Ordering::Relaxed);
                    r
                });
                let name = format!("child-mem#{} cpus={} load={}", rep, aff.clone().unwrap_or_else(|| "any".into()), loaded);
                match res {
                    Ok(a) => sessions.push(Session { name, answers: a }),
                    Err(e) => problems.push(format!("{}: {}", name, e)),
                }
                let _ = ai;
            }
        }
    }
    // cold processes in which several sessions are opened at the same moment (state shared between the
    // sessions of one process, or a session that observes another one half-built, shows here)
    let ncold = ctx.tier.pick(2usize, 12);
    for rep in 0..ncold {
        let threads = [4usize, 8, 2, 16][rep % 4];
        match run_probe(&format!("memx:{}", threads), &work, &qfile, &[], None) {
            Ok(lines) => {
                let mut cur: Option<Session> = None;
                for l in lines {
                    if let Some(t) = l.strip_prefix("=== thread ") {
                        if let Some(s) = cur.take() {
                            sessions.push(s);
                        }
                        cur = Some(Session { name: format!("cold-concurrent#{}.{}of{}", rep, t, threads), answers: vec![] });
                    } else if let Some(s) = cur.as_mut() {
                        s.answers.push(l);
                    }
                }
                if let Some(s) = cur.take() {
                    sessions.push(s);
                }
            }
            Err(e) => problems.push(format!("cold-concurrent#{}: {}", rep, e)),
        }
    }
    // one database shared by several threads that look things up at the same moment (only while `Db` is `Sync`)
    let nshared = ctx.tier.pick(1usize, 6);
    for rep in 0..nshared {
        let threads = [8usize, 16, 4][rep % 3];
        match run_probe(&format!("shared:{}", threads), &work, &qfile, &[], None) {
            Ok(lines) if lines.first().map(|l| l.starts_with("UNSUPPORTED")).unwrap_or(false) => {
                ctx.put("shared_db_concurrent_lookups", json!("not applicable: Db is not Sync in this tree"));
            }
            Ok(lines) => {
                let mut cur: Option<Session> = None;
                for l in lines {
                    if let Some(t) = l.strip_prefix("=== thread ") {
                        if let Some(s) = cur.take() {
                            sessions.push(s);
                        }
                        cur = Some(Session { name: format!("shared-db-concurrent-lookups#{}.{}of{}", rep, t, threads), answers: vec![] });
                    } else if let Some(s) = cur.as_mut() {
                        s.answers.push(l);
                    }
                }
                if let Some(s) = cur.take() {
                    sessions.push(s);
                }
            }
            Err(e) => problems.push(format!("shared-db-concurrent-lookups#{}: {}", rep, e)),
        }
    }
    // on-disk: first build, reopen, rebuild over a stale hash, reopen again
    let disk = work.join("disk");
    std::fs::create_dir_all(&disk).unwrap();
    let nd = ctx.tier.pick(3usize, 8);
    for d in 0..nd {
        let dir = disk.join(format!("d{}", d));
        std::fs::create_dir_all(&dir).unwrap();
        for (step, name) in [(0, "on-disk-first-build"), (1, "on-disk-reopen"), (2, "on-disk-rebuild-stale-hash"), (3, "on-disk-reopen-after-rebuild")] {
            if step == 2 {
                // make the stored hash stale, keep version and index
                let meta = dir.join("facts").join("meta.json");
                if let Ok(t) = std::fs::read_to_string(&meta) {
                    if let Ok(mut v) = serde_json::from_str::<Value>(&t) {
                        v["database_hash"] = json!("0000stale");
                        let _ = std::fs::write(&meta, v.to_string());
                    }
                }
            }
            let aff = if d % 2 == 1 { Some("0") } else { None };
            match run_probe("open", &dir, &qfile, &[], aff) {
                Ok(a) => sessions.push(Session { name: format!("{}#{}", name, d), answers: a }),
                Err(e) => problems.push(format!("{}#{}: {}", name, d, e)),
            }
        }
    }
    for p in &problems {
        ctx.record_case("sessions", CaseReport::fail(p.clone(), "session-failed", json!(p)), json!({"problem": p}));
    }
    // compare
    ctx.put("sessions", json!(sessions.iter().map(|s| s.name.clone()).collect::<Vec<_>>()));
    ctx.put("queries", json!(queries.len()));
    for s in &sessions {
        if s.answers.len() != queries.len() {
            ctx.record_case("sessions", CaseReport::fail(s.name.clone(), "session-answer-count", json!({"session": s.name, "answers": s.answers.len(), "queries": queries.len()})), json!({"session": s.name}));
        }
    }
    for (qi, (q, ambiguous)) in qs.iter().enumerate() {
        let mut by_answer: BTreeMap<String, Vec<String>> = BTreeMap::new();
        for s in &sessions {
            if let Some(a) = s.answers.get(qi) {
                by_answer.entry(a.clone()).or_default().push(s.name.clone());
            }
        }
        let n = sessions.len();
        let rep = if by_answer.len() <= 1 {
            let mut classes = vec![];
            if *ambiguous {
                classes.push("carried-by->=2-constants");
            }
            if by_answer.keys().next().map(|a| a.starts_with("ERR")).unwrap_or(false) {
                classes.push("not-found-everywhere");
            }
            CaseReport::pass(q.clone(), *ambiguous, classes)
        } else {
            CaseReport::fail(q.clone(), "sessions-disagree", json!({"query": q, "answers": by_answer}))
        };
        // count one evaluation per (session, query)
        ctx.record_case("query", rep, json!({"query": q, "sessions": n}));
    }
    {
        let mut st = ctx.stats.lock().unwrap();
        st.evaluations += (sessions.len().saturating_sub(1) * queries.len()) as u64;
    }
    let _ = std::fs::remove_dir_all(&work);
}

pub fn replay(ctx: &Ctx, case: &Value) {
    // replay: rebuild several sessions and ask the saved query
    let q = case["query"].as_str().expect("replay file holds {query}").to_string();
    let mut answers: BTreeMap<String, Vec<String>> = BTreeMap::new();
    for i in 0..8 {
        let db = Db::in_memory().unwrap();
        answers.entry(answer(&db, &q)).or_default().push(format!("in-memory#{}", i));
    }
    let rep = if answers.len() <= 1 { CaseReport::pass(q.clone(), true, vec![]) } else { CaseReport::fail(q.clone(), "sessions-disagree", json!({"query": q, "answers": answers})) };
    ctx.record_case("replay", rep, case.clone());
}
