//! C03 Unit conversion preserves the physical quantity.

use super::common::*;
use crate::ast::{eval_ref, render_canonical, Expr, Lit, Op, USpell};
use crate::gen::{self, build_spelling, free_spelling, raw_spell, words, LitCfg};
use crate::runner::{CaseReport, Ctx, Verdict};
use crate::tool::shared_db;
use proptest::prelude::*;
use serde_json::{json, Value};

#[derive(Clone, Debug)]
pub struct Family {
    pub u1: USpell,
    pub u2: USpell,
    pub u3: USpell,
    pub x: Lit,
    pub k: Lit,
}

fn qty(x: &Lit, u: &USpell) -> Expr {
    Expr::Qty(x.clone(), u.clone())
}
fn cast(e: Expr, u: &USpell) -> Expr {
    Expr::Cast(Box::new(e), u.clone())
}

/// The relations of one family, each as (name, expression).
pub fn relations(f: &Family) -> Vec<(&'static str, Expr)> {
    vec![
        ("direct", cast(qty(&f.x, &f.u1), &f.u2)),
        ("there-and-back", cast(cast(qty(&f.x, &f.u1), &f.u2), &f.u1)),
        ("via-intermediate", cast(cast(qty(&f.x, &f.u1), &f.u3), &f.u2)),
        ("scaled-input", cast(Expr::bin(Op::Mul, Expr::Num(f.k.clone()), qty(&f.x, &f.u1)), &f.u2)),
        ("scaled-output", Expr::bin(Op::Mul, Expr::Num(f.k.clone()), Expr::Paren(Box::new(cast(qty(&f.x, &f.u1), &f.u2))))),
    ]
}

fn classify(f: &Family) -> (bool, Vec<&'static str>) {
    let mut c = vec![];
    let differs = f.u1 != f.u2;
    let prefixed_power = f.u1.factors.iter().chain(f.u2.factors.iter()).any(|(w, p)| w.prefix != 0 && p.abs() > 1);
    let multi = f.u1.factors.len() >= 2 || f.u2.factors.len() >= 2;
    let derived_in_quotient = f.u1.factors.iter().chain(f.u2.factors.iter()).any(|(w, p)| *p < 0 && !crate::units_ref::vocab().units[w.unit].is_base);
    if prefixed_power {
        c.push("prefix-on-powered-unit");
    }
    if multi {
        c.push(">=2-units");
    }
    if derived_in_quotient {
        c.push("derived-unit-in-denominator");
    }
    if f.u1.cancelling() || f.u2.cancelling() {
        c.push("cancelling-spelling");
    }
    (differs && (prefixed_power || multi || derived_in_quotient), c)
}

fn cases_of(f: &Family) -> Vec<(&'static str, QCase)> {
    let (nt, classes) = classify(f);
    let mut out = Vec::new();
    for (name, e) in relations(f) {
        let r = eval_ref(&e, &ObsEnv);
        let unit = match &e {
            Expr::Cast(_, u) => Some(u.mirror()),
            _ => None,
        };
        if let Some(expect) = expect_of(&r, unit.as_ref()) {
            let mut cl: Vec<String> = classes.iter().map(|s| s.to_string()).collect();
            cl.push(format!("relation:{}", name));
            out.push((name, QCase { query: render_canonical(&e), expect, nontrivial: nt, classes: cl }));
        }
    }
    out
}

/// A family is one case for the runner: the first failing relation is reported.
fn check(f: &Family) -> CaseReport {
    let db = shared_db();
    let cs = cases_of(f);
    if cs.is_empty() {
        return CaseReport::discard("", "reference-unspecified");
    }
    let mut key = String::new();
    let mut classes = vec![];
    let mut nt = false;
    for (name, c) in &cs {
        let rep = judge(db, c);
        match rep.verdict {
            Verdict::Fail { sig, detail } => return CaseReport::fail(&c.query, format!("{}:{}", name, sig), detail),
            _ => {
                if key.is_empty() {
                    key = c.query.clone();
                    classes = rep.classes.iter().copied().filter(|s| !s.starts_with("relation:")).collect();
                    nt = rep.nontrivial;
                }
            }
        }
    }
    CaseReport::pass(key, nt, classes)
}

fn family_json(f: &Family) -> Value {
    json!(cases_of(f).into_iter().map(|(n, c)| json!({"relation": n, "case": c})).collect::<Vec<_>>())
}

fn lit() -> impl Strategy<Value = Lit> {
    prop_oneof![2 => gen::small_lit(), 3 => gen::lit(LitCfg { max_int_digits: 6, max_frac_digits: 6, max_exp: 6, allow_percent: false, allow_neg: true, allow_plus: false, allow_exotic: false })].prop_filter("no percent", |l| !l.text.ends_with('%'))
}

pub fn family() -> impl Strategy<Value = Family> {
    (free_spelling(2, 3), raw_spell(3, 3), raw_spell(2, 3), lit(), lit()).prop_map(|(u1, r2, r3, x, k)| {
        let d = u1.dim();
        let u2 = build_spelling(&r2, &d);
        let u3 = build_spelling(&r3, &d);
        Family { u1, u2, u3, x, k }
    })
    .prop_filter("non-empty spellings", |f| !f.u2.factors.is_empty() && !f.u3.factors.is_empty() && f.u1.factors.len() <= 4 && f.u2.factors.len() <= 4)
}

/// (d) `1 <prefix><name>^n to <name>^n` = 10^(e*n) for every safe prefixed word.
fn prefix_case(i: u64) -> Option<QCase> {
    let w = words();
    let prefixed: Vec<usize> = (0..w.all.len()).filter(|i| w.all[*i].safe && w.all[*i].word.prefix != 0).collect();
    let powers = [-3, -2, -1, 1, 2, 3];
    let wi = &w.all[*prefixed.get((i / 6) as usize)?];
    let n = powers[(i % 6) as usize];
    let v = crate::units_ref::vocab();
    let u = &v.units[wi.word.unit];
    if u.offset {
        return None;
    }
    // the same name without the prefix
    let bare_text = &wi.word.text[wi.word.text.len() - u.names.iter().filter(|nm| wi.word.text.ends_with(nm.as_str())).map(|nm| nm.len()).max()?..];
    let bare = w.all.iter().find(|x| x.safe && x.word.text == *bare_text && x.word.prefix == 0 && x.word.unit == wi.word.unit)?;
    let from = USpell { factors: vec![(wi.word.clone(), n)], slash: false, star: true, noise: 0, starstar: false };
    let to = USpell { factors: vec![(bare.word.clone(), n)], slash: false, star: true, noise: 0, starstar: false };
    let e = Expr::Cast(Box::new(Expr::Qty(Lit::int(1), from)), to.clone());
    let want = crate::tool::pow10((wi.word.prefix as i64) * n as i64);
    let si = &want * to.scale(&observed().table)?;
    let mut classes = vec!["prefix-grid".to_string()];
    if u.variant == "Gram" {
        classes.push("gram-kilogram-bias".to_string());
    }
    Some(QCase { query: render_canonical(&e), expect: Expect::QuantityIn { si: rat(&si), dim: to.dim(), unit: mirror_json(&to.mirror()) }, nontrivial: true, classes })
}

/// Glued product words (`kWh`, `mAh`, `kNm`): a prefixed word directly followed by an unprefixed one, kept only
/// when the letters have exactly one reading as documented prefix/unit names (so the expectation does not
/// depend on how an ambiguity is resolved) and hold no lexer backtracking position (known finding, C05).
fn glued_words() -> &'static Vec<(crate::ast::Word, crate::ast::Word)> {
    static G: std::sync::OnceLock<Vec<(crate::ast::Word, crate::ast::Word)>> = std::sync::OnceLock::new();
    G.get_or_init(|| {
        let w = words();
        let v = crate::units_ref::vocab();
        let firsts: Vec<&crate::gen::WordInfo> = w.all.iter().filter(|x| x.safe && x.word.prefix != 0 && x.word.text.chars().count() <= 3 && !v.units[x.word.unit].offset).collect();
        let seconds: Vec<&crate::gen::WordInfo> = w.all.iter().filter(|x| x.safe && x.word.prefix == 0 && x.word.text.chars().count() <= 2 && !v.units[x.word.unit].offset).collect();
        let mut out = Vec::new();
        for a in &firsts {
            for b in &seconds {
                // the same unit twice with two prefixes is refused by the tool's own rule (one prefix per unit)
                if a.word.unit == b.word.unit {
                    continue;
                }
                let glued = format!("{}{}", a.word.text, b.word.text);
                if !crate::units_ref::typable_word(&glued) || super::c05::backtrack_prone(&glued) {
                    continue;
                }
                let segs = super::c05::segmentations(&glued, 3);
                if segs.len() != 1 || segs[0].len() != 2 {
                    continue;
                }
                if segs[0][0].0 != v.units[a.word.unit].key() || segs[0][1].0 != v.units[b.word.unit].key() {
                    continue;
                }
                out.push((a.word.clone(), b.word.clone()));
            }
        }
        out
    })
}

fn glued_case(i: u64) -> Option<QCase> {
    let g = glued_words();
    let (a, b) = g.get(i as usize)?;
    let glued = format!("{}{}", a.text, b.text);
    let product = USpell { factors: vec![(a.clone(), 1), (b.clone(), 1)], slash: false, star: true, noise: 0, starstar: false };
    let dim = product.dim();
    let si = product.scale(&observed().table)?;
    let target = crate::units_ref::dim_spelling(&dim);
    if target.is_empty() {
        return None;
    }
    Some(QCase { query: format!("1 {} to {}", glued, target), expect: Expect::Quantity { si: rat(&si), dim }, nontrivial: true, classes: vec!["glued-product-word".to_string()] })
}

pub fn prefixed_count() -> u64 {
    let w = words();
    w.all.iter().filter(|x| x.safe && x.word.prefix != 0).count() as u64
}

pub fn run_check(ctx: &Ctx) {
    ctx.set_rule("families (x, k, U1, U2, U3) of commensurable spellings: direct cast, there-and-back, via an intermediate unit, scaled input k*(x U1) to U2 and scaled output k*(x U1 to U2), each compared with x*s(U1)/s(U2) where s is the product of the observed single-unit factors and 10^(prefix*power); plus the exhaustive grid `1 <prefix><name>^n to <name>^n` = 10^(e*n) over every prefixed word the tool reads as declared and n in -3..3; every glued product word `<prefixed word><unprefixed word>` (kWh, mAh, kNm …) whose letters have exactly one documented reading: `1 <word> to <SI>` is refused or = 10^prefix * s(u1) * s(u2); non-trivial = source != target and (prefix on a powered unit, or >=2 units, or a derived unit in a denominator); distinct by the direct-cast query text");
    ctx.assume("single-unit factors are the tool's own (observed once with 86 casts); their correctness against the standards is C05's job");
    let corpus: Vec<(String, QCase)> = load_corpus("C03");
    let cases: Vec<QCase> = corpus.into_iter().map(|c| c.1).collect();
    ctx.run_list("corpus", &cases, |c| judge(shared_db(), c), |c| to_json(c));
    let total = prefixed_count() * 6;
    ctx.run_enum("prefix-grid", total, prefix_case, |c| judge(shared_db(), c), |c| to_json(c));
    ctx.put("prefix_grid_exhaustive", json!(true));
    let ng = glued_words().len() as u64;
    ctx.put("glued_product_words", json!(ng));
    // the tool may refuse a glued word (its lexer takes the longest name first and does not go back: `Ygrd` is
    // `Ygr` + `d`); what it accepts must have the value of the one documented reading
    ctx.run_enum(
        "glued-product-words",
        ng,
        glued_case,
        |c| match crate::tool::run(shared_db(), &c.query) {
            Ok(rs) if rs.len() == 1 && matches!(rs[0], crate::tool::R::Err { .. }) => CaseReport::pass(&c.query, false, vec!["glued-product-word(refused)"]),
            _ => judge(shared_db(), c),
        },
        |c| to_json(c),
    );
    let n = ctx.tier.pick(40_000u64, 1_000_000);
    ctx.run_gen("families", family, n, check, family_json);
}

pub fn replay(ctx: &Ctx, case: &Value) {
    // a family replay holds a list of {relation, case}; a grid replay a single QCase
    let cases: Vec<QCase> = match case {
        Value::Array(a) => a.iter().map(|x| serde_json::from_value(x["case"].clone()).expect("QCase")).collect(),
        other => vec![serde_json::from_value(other.clone()).expect("QCase")],
    };
    ctx.run_list("replay", &cases, |c| judge(shared_db(), c), |c| to_json(c));
}
