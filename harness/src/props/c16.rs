//! C16 Every shipped fact can be found by its own words.

use super::common::*;
use crate::facts::{facts, typable};
use crate::runner::{CaseReport, Ctx};
use crate::tool::{run_full, shared_db, R};
use serde::{Deserialize, Serialize};
use serde_json::{json, Value};

#[derive(Clone, Debug, Serialize, Deserialize)]
pub struct Lookup {
    pub words: Vec<String>,
    #[serde(default)]
    pub permuted: bool,
}

fn check(c: &Lookup) -> CaseReport {
    check_on(shared_db(), c, "in-memory")
}

/// Private data directory of this process for the on-disk sessions.
fn disk_dir() -> std::path::PathBuf {
    std::path::PathBuf::from(format!("{}/build/xdg/C16-{}", crate::runner::verif_root(), std::process::id()))
}

/// A handle on the already built on-disk index, one per thread (a reopened session: it must not rebuild).
fn reopened_db() -> &'static anything::Db {
    thread_local! {
        static DB: &'static anything::Db = Box::leak(Box::new(anything::Db::open().expect("reopening the on-disk index")));
    }
    DB.with(|d| *d)
}

/// The constant as the library decodes it straight from the shipped file (no index in between).
fn direct_constant(words: &[String]) -> Option<anything::Constant> {
    crate::facts::typed_constants().iter().find(|c| c.tokens.len() == words.len() && c.tokens.iter().zip(words.iter()).all(|(a, b)| a.as_ref() == b.as_str())).cloned()
}

/// Differential between the two decode paths: file -> Constant, and file -> index payload -> Constant.
pub fn differential(db: &anything::Db, words: &[String], q: &str) -> Option<(String, String)> {
    let direct = direct_constant(words)?;
    let parsed = anything::parse(q).ok()?;
    let mut descs = Vec::new();
    let n = anything::query(&parsed, db, anything::Options::default().describe(), &mut descs).count();
    if n != 1 || descs.len() != 1 {
        return None;
    }
    #[allow(irrefutable_let_patterns)]
    let anything::Description::Constant(_, c) = &descs[0] else {
        return Some(("description-is-not-a-constant".into(), q.to_string()));
    };
    if c.description != direct.description {
        return None; // another constant carrying the same words: judged by the word clauses, not here
    }
    if c.tokens != direct.tokens {
        return Some(("indexed-constant-differs-from-file:tokens".into(), format!("through the index {:?}, straight from the file {:?}", c.tokens, direct.tokens)));
    }
    if c.unit != direct.unit || c.unit.to_string() != direct.unit.to_string() || c.unit.display(true).to_string() != direct.unit.display(true).to_string() {
        return Some(("indexed-constant-differs-from-file:unit".into(), format!("through the index `{}` ({:?}), straight from the file `{}` ({:?}); equal: {}", c.unit, crate::tool::mirror(&c.unit), direct.unit, crate::tool::mirror(&direct.unit), c.unit == direct.unit)));
    }
    if c.value != direct.value || c.description != direct.description || c.source != direct.source {
        return Some(("indexed-constant-differs-from-file".into(), format!("{:?} vs {:?}", c, direct)));
    }
    None
}

fn check_on(db: &anything::Db, c: &Lookup, session: &'static str) -> CaseReport {
    let q = c.words.join(" ");
    let run = match run_full(db, &q, true) {
        Ok(r) => r,
        Err(p) => return CaseReport::fail(&q, "panic", json!({"query": q, "panic": p})),
    };
    let fail = |sig: &str, why: String| CaseReport::fail(format!("{} [{}]", q, session), sig, json!({"query": q, "session": session, "why": why, "results": results_json(&run.results)}));
    let val = match run.results.as_slice() {
        [R::Ok(v)] => v,
        [R::Err { msg, .. }] => return fail("own-words-not-found", msg.clone()),
        _ => return fail("result-count", format!("{} results", run.results.len())),
    };
    if run.descs.len() != 1 {
        return fail("description-count", format!("{} descriptions for one phrase", run.descs.len()));
    }
    let d = &run.descs[0];
    if d.phrase != q {
        return fail("described-phrase-differs", format!("{:?}", d.phrase));
    }
    let have: Vec<String> = d.tokens.iter().map(|t| t.to_lowercase()).collect();
    for w in &c.words {
        if !have.contains(&w.to_lowercase()) {
            return fail("constant-lacks-a-word", format!("returned constant {:?} ({}) does not carry the word {:?}", d.tokens, d.description, w));
        }
    }
    if d.description.trim().is_empty() {
        return fail("empty-description", format!("{:?}", d.tokens));
    }
    if let Some(id) = d.source {
        match db.get_source(id) {
            None => return fail("dangling-source", format!("source id {} of {:?} does not resolve", id, d.tokens)),
            Some(s) => {
                // the source the id resolves to is the shipped source of that id (decoded by the harness from sources.bin.gz)
                let shipped = facts().sources_full.iter().find(|x| x.0 == id);
                let same = s.id == id && shipped.map(|x| x.1.as_str() == &*s.description && x.2.as_deref() == s.url.as_deref()).unwrap_or(false);
                if !same {
                    return fail("source-resolves-to-another-source", format!("source id {} of {:?} resolves to id {} ({}); shipped: {:?}", id, d.tokens, s.id, s.description, shipped));
                }
            }
        }
    }
    if val.value != d.value || val.unit != d.unit {
        return fail("result-differs-from-constant", format!("result {} [{}] vs constant {} {:?}", val.value, val.unit_text, d.value, d.unit));
    }
    if !c.permuted {
        if let Some((sig, why)) = differential(db, &c.words, &q) {
            return fail(&sig, why);
        }
    }
    let mut classes = vec![session];
    if c.permuted {
        classes.push("permuted");
    }
    if d.source.is_some() {
        classes.push("with-source");
    }
    if c.words.len() >= 3 {
        classes.push(">=3-words");
    }
    CaseReport::pass(format!("{} [{}]", q, session), c.words.len() >= 2, classes)
}

/// Two constants asked for in ONE query (`(words of one) (words of the other)`): each root expression must
/// return what it returns alone — same value, unit and described constant.
fn check_pair(a: &[String], b: &[String]) -> CaseReport {
    let db = shared_db();
    let (qa, qb) = (a.join(" "), b.join(" "));
    let q = format!("({}) ({})", qa, qb);
    let alone = |t: &str| run_full(db, t, true).ok().map(|r| (results_json(&r.results), r.descs.iter().map(|d| format!("{}|{}|{:?}|{:?}", d.description, d.value, d.unit, d.tokens)).collect::<Vec<_>>()));
    let (ea, eb) = match (alone(&qa), alone(&qb)) {
        (Some(x), Some(y)) => (x, y),
        _ => return CaseReport::fail(&q, "panic", json!({"query": q})),
    };
    let both = match run_full(db, &q, true) {
        Ok(r) => r,
        Err(p) => return CaseReport::fail(&q, "panic", json!({"query": q, "panic": p})),
    };
    let got_results = results_json(&both.results);
    let want_results = json!([ea.0[0], eb.0[0]]);
    let got_descs: Vec<String> = both.descs.iter().map(|d| format!("{}|{}|{:?}|{:?}", d.description, d.value, d.unit, d.tokens)).collect();
    let mut want_descs = ea.1.clone();
    want_descs.extend(eb.1.clone());
    if ea.0.as_array().map(|x| x.len()) != Some(1) || eb.0.as_array().map(|x| x.len()) != Some(1) {
        return CaseReport::pass(&q, false, vec!["pair(skipped: not a single result alone)"]);
    }
    if got_results != want_results || got_descs != want_descs {
        return CaseReport::fail(&q, "constant-differs-next-to-another-in-one-query", json!({"query": q, "results": got_results, "alone": want_results, "described": got_descs, "described_alone": want_descs}));
    }
    CaseReport::pass(&q, true, vec!["two-constants-in-one-query"])
}

fn mix(a: u64, b: u64) -> u64 {
    let mut x = a.wrapping_mul(0x9E3779B97F4A7C15) ^ b.wrapping_add(0x7F4A7C15);
    x = (x ^ (x >> 29)).wrapping_mul(0xBF58476D1CE4E5B9);
    x ^ (x >> 32)
}

pub fn run_check(ctx: &Ctx) {
    ctx.set_rule("every constant of the shipped database (decoded by the harness from db/*.bin.gz) whose words are typable ([A-Za-z0-9°']+, first word not starting with a digit, no word `to`) is asked for by exactly its words joined by blanks (also every rotation, the reversal and pseudo-random permutations: 12 orders per constant, thorough 240); each against an in-memory database, the on-disk session that builds the index and reopened on-disk sessions; oracle: one value, one description whose phrase is the query, the returned constant carries every asked word, has a description, a source id that resolves to the shipped source of that id (id, description and URL as the harness decodes them from sources.bin.gz), its value and unit are the result, and it equals (unit ==, unit text, value, description, source) the constant the library decodes straight from the shipped file; also pairs of constants as the two root expressions of one query (each with its successor and with one from afar; thorough: with 59 from afar): each answers as it does alone; non-trivial = at least two words; distinct by query text");
    let f = facts();
    if !f.undecodable.is_empty() {
        ctx.record_case("decode", CaseReport::fail("decode", "shipped-constant-does-not-decode", json!(f.undecodable)), json!({"undecodable": f.undecodable}));
    }
    let corpus: Vec<(String, Lookup)> = load_corpus("C16");
    let cases: Vec<Lookup> = corpus.into_iter().map(|c| c.1).collect();
    ctx.run_list("corpus", &cases, check, |c| to_json(c));
    let typ: Vec<&crate::facts::Fact> = f.all.iter().filter(|x| typable(&x.tokens)).collect();
    ctx.put("constants", json!(f.all.len()));
    ctx.put("typable_constants", json!(typ.len()));
    ctx.run_enum("own-words", typ.len() as u64, |i| Some(Lookup { words: typ[i as usize].tokens.clone(), permuted: false }), check, |c| to_json(c));
    // the same enumeration against the on-disk database: the session that builds it, then reopened sessions
    let dir = disk_dir();
    let _ = std::fs::remove_dir_all(&dir);
    std::fs::create_dir_all(&dir).expect("private data dir");
    std::env::set_var("XDG_DATA_HOME", &dir);
    match anything::Db::open() {
        Ok(first) => {
            for t in &typ {
                let l = Lookup { words: t.tokens.clone(), permuted: false };
                ctx.record_case("own-words(on-disk, first start)", check_on(&first, &l, "on-disk-first-start"), to_json(&l));
            }
            drop(first);
            ctx.run_enum("own-words(on-disk, reopened)", typ.len() as u64, |i| Some(Lookup { words: typ[i as usize].tokens.clone(), permuted: false }), |c| check_on(reopened_db(), c, "on-disk-reopened"), |c| to_json(c));
        }
        Err(e) => ctx.record_case("own-words(on-disk, first start)", CaseReport::fail("Db::open", "start-fails", json!(format!("{:#}", e))), json!({"open": "failed"})),
    }
    ctx.exhaustive.store(true, std::sync::atomic::Ordering::Relaxed);
    ctx.put("exhaustive_scope", json!("all typable constants, own word order, against an in-memory database, the on-disk session that builds the index and reopened on-disk sessions"));
    // pairs of constants in one query: every constant with its successor in the data, and with one from afar
    let np = typ.len() as u64;
    let partners = ctx.tier.pick(2u64, 60);
    ctx.run_enum(
        "two-constants-in-one-query",
        np * partners,
        |i| {
            let a = (i / partners) as usize;
            let b = if i % partners == 0 { (a + 1) % typ.len() } else { (mix(i, 7) % np) as usize };
            if a == b {
                None
            } else {
                Some((typ[a].tokens.clone(), typ[b].tokens.clone()))
            }
        },
        |(a, b)| check_pair(a, b),
        |(a, b)| json!({"pair": [a, b]}),
    );
    let per = ctx.tier.pick(12u64, 240);
    ctx.run_enum(
        "permuted-words",
        typ.len() as u64 * per,
        |i| {
            let t = &typ[(i / per) as usize].tokens;
            let k = i % per;
            if t.len() < 2 {
                return None;
            }
            let mut w = t.clone();
            match k {
                0 => w.reverse(),
                1 => w.rotate_left(1),
                k if (k as usize) < t.len().min(7) => w.rotate_left(k as usize),
                _ => {
                    // Fisher-Yates with a fixed hash of (fact, k)
                    for j in (1..w.len()).rev() {
                        let r = (mix(i, j as u64) % (j as u64 + 1)) as usize;
                        w.swap(j, r);
                    }
                }
            }
            if w == *t || !typable(&w) {
                return None;
            }
            Some(Lookup { words: w, permuted: true })
        },
        check,
        |c| to_json(c),
    );
    let _ = std::fs::remove_dir_all(disk_dir());
}

pub fn replay(ctx: &Ctx, case: &Value) {
    if let Some(p) = case.get("pair") {
        let (a, b): (Vec<String>, Vec<String>) = serde_json::from_value(p.clone()).expect("pair of word lists");
        ctx.run_list("replay", &[(a, b)], |(a, b)| check_pair(a, b), |(a, b)| json!({"pair": [a, b]}));
        return;
    }
    let c: Lookup = serde_json::from_value(case.clone()).expect("replay file holds a Lookup");
    ctx.run_list("replay", &[c], check, |c| to_json(c));
}
