//! C01 Numeric expressions evaluate to the exact rational value.

use super::common::*;
use crate::ast::{Expr, Lit, Op};
use crate::gen::{self, LitCfg, TreeCfg};
use crate::runner::{CaseReport, Ctx};
use crate::tool::shared_db;
use proptest::prelude::*;
use serde_json::Value;

fn classify(e: &Expr) -> (bool, Vec<&'static str>) {
    let mut kinds = std::collections::BTreeSet::new();
    let mut right_paren = false;
    let mut negzero_pow = false;
    let mut big = false;
    let mut pct = false;
    let mut expo = false;
    e.visit(&mut |n| match n {
        Expr::Bin(op, _, b) => {
            kinds.insert(op.text());
            if matches!(**b, Expr::Bin(..) | Expr::Paren(_)) {
                right_paren = true;
            }
        }
        Expr::Pow(_, n) => {
            kinds.insert("^");
            if *n <= 0 {
                negzero_pow = true;
            }
        }
        Expr::PowE(..) => {
            kinds.insert("^");
            right_paren = true;
        }
        Expr::Num(l) => {
            if l.text.len() > 20 {
                big = true;
            }
            if l.text.ends_with('%') {
                pct = true;
            }
            if l.text.contains('e') || l.text.contains('E') {
                expo = true;
            }
        }
        _ => {}
    });
    let mut classes = vec![];
    if right_paren {
        classes.push("right-operand-parenthesised");
    }
    if negzero_pow {
        classes.push("non-positive-power");
    }
    if big {
        classes.push("literal>20chars");
    }
    if pct {
        classes.push("percent");
    }
    if expo {
        classes.push("exponent-notation");
    }
    if kinds.len() >= 2 {
        classes.push(">=2-operator-kinds");
    }
    (kinds.len() >= 2 || right_paren || negzero_pow || big, classes)
}

fn make_case(e: &Expr) -> Option<QCase> {
    let (nt, mut classes) = classify(e);
    let mut c = case_from_expr(e, &ObsEnv, nt, vec![])?;
    if matches!(c.expect, Expect::Error { .. }) {
        classes.push("error-case");
        c.nontrivial = true;
    }
    c.classes = classes.into_iter().map(|s| s.to_string()).collect();
    Some(c)
}

fn check(e: &Expr) -> CaseReport {
    match make_case(e) {
        Some(c) => judge(shared_db(), &c),
        None => CaseReport::discard(crate::ast::render_canonical(e), "reference-unspecified"),
    }
}

fn case_json(e: &Expr) -> Value {
    match make_case(e) {
        Some(c) => to_json(&c),
        None => Value::Null,
    }
}

fn zero_rich() -> impl Strategy<Value = Expr> {
    let leaf = prop_oneof![
        3 => prop_oneof![Just("0"), Just("0.0"), Just("0e5"), Just("-0"), Just("0%"), Just("00")].prop_map(|t| Expr::Num(Lit::from_text(t))),
        3 => gen::small_lit().prop_map(Expr::Num),
        // x - x
        2 => gen::small_lit().prop_map(|l| Expr::bin(Op::Sub, Expr::Num(l.clone()), Expr::Num(l))),
    ];
    leaf.prop_recursive(4, 16, 2, |inner| {
        prop_oneof![
            4 => (gen::op(), inner.clone(), inner.clone()).prop_map(|(o, a, b)| Expr::bin(o, a, b)),
            2 => (Just(Op::Div), inner.clone(), inner.clone()).prop_map(|(o, a, b)| Expr::bin(o, a, b)),
            2 => (inner.clone(), -3i32..=3).prop_map(|(a, n)| Expr::Pow(Box::new(a), n)),
        ]
    })
}

/// Trees whose leaves sit next to machine-word boundaries (2^k + j, 10^k + j, point moved, small exponent).
fn word_boundary() -> impl Strategy<Value = Expr> {
    let leaf = prop_oneof![
        4 => gen::word_boundary_lit().prop_map(Expr::Num),
        1 => gen::small_lit().prop_map(Expr::Num),
    ];
    leaf.prop_recursive(3, 10, 2, |inner| {
        prop_oneof![
            6 => (gen::op(), inner.clone(), inner.clone()).prop_map(|(o, a, b)| Expr::bin(o, a, b)),
            1 => (inner.clone(), -3i32..=3).prop_map(|(a, n)| Expr::Pow(Box::new(a), n)),
        ]
    })
}

/// Zero raised to exponents around and beyond the 32-bit range (the only base for which such an exponent can be
/// evaluated at all: the answer needs no arithmetic): 0 for a positive exponent, an error for a negative one.
fn zero_to_huge_powers() -> impl Strategy<Value = Expr> {
    let zero = prop_oneof![
        Just(Expr::Num(Lit::from_text("0"))),
        Just(Expr::Num(Lit::from_text("0.0"))),
        Just(Expr::Paren(Box::new(Expr::bin(Op::Sub, Expr::Num(Lit::from_text("3")), Expr::Num(Lit::from_text("3")))))),
        Just(Expr::Paren(Box::new(Expr::bin(Op::Mul, Expr::Num(Lit::from_text("0")), Expr::Num(Lit::from_text("7")))))),
    ];
    let exp = prop_oneof![
        Just("2147483647"), Just("2147483648"), Just("4294967296"), Just("1e10"), Just("99999999999999999999"), Just("9223372036854775808"),
        Just("-2147483648"), Just("-2147483649"), Just("-1e10"), Just("65536"), Just("-65537"),
    ];
    (zero, exp, prop::option::weighted(0.4, gen::small_lit()), any::<bool>()).prop_map(|(z, e, extra, sum)| {
        let p = Expr::PowE(Box::new(z), Box::new(Expr::Num(Lit::from_text(e))));
        match extra {
            Some(l) if sum => Expr::bin(Op::Add, Expr::Num(l), p),
            Some(l) => Expr::bin(Op::Mul, p, Expr::Num(l)),
            None => p,
        }
    })
}

pub fn run(ctx: &Ctx) {
    ctx.set_rule("expression trees over decimal literals (small, 60-300 digits, zero-rich, and values next to machine-word boundaries 2^k + j / 10^k + j) with + - * / ^ and parentheses, canonical layout, compared with an independent exact evaluator; non-trivial = >=2 distinct operator kinds, or a parenthesised right operand, or a zero/negative power, or a literal longer than 20 characters, or a division-by-zero case; distinct by query text");
    ctx.assume("exponents are integer literals or parenthesised integer-valued expressions by construction; product of |exponents| along a path is capped (size guard)");
    let corpus: Vec<(String, QCase)> = load_corpus("C01");
    let cases: Vec<QCase> = corpus.into_iter().map(|c| c.1).collect();
    ctx.run_list("corpus", &cases, |c| judge(shared_db(), c), |c| to_json(c));

    let n = ctx.tier.pick(400_000u64, 8_000_000);
    let small = TreeCfg { depth: ctx.tier.pick(6, 8), size: 40, max_pow: 6, pow_weight_cap: 256, lit: LitCfg::SMALL, calls: false };
    ctx.run_gen("small-literals", || gen::num_expr(small), n / 2, check, case_json);
    let big = TreeCfg { depth: 4, size: 16, max_pow: 3, pow_weight_cap: 9, lit: ctx.tier.pick(LitCfg::BIG, LitCfg { max_int_digits: 300, max_frac_digits: 100, max_exp: 300, ..LitCfg::BIG }), calls: false };
    ctx.run_gen("big-literals", || gen::num_expr(big), n / 4, check, case_json);
    ctx.run_gen("zero-rich", zero_rich, n / 4, check, case_json);
    ctx.run_gen("word-boundary", word_boundary, n / 8, check, case_json);
    ctx.run_gen("zero-to-huge-powers", zero_to_huge_powers, 2_000, check, case_json);
}

pub fn replay(ctx: &Ctx, case: &Value) {
    let c: QCase = serde_json::from_value(case.clone()).expect("replay file holds a QCase");
    ctx.run_list("replay", &[c], |c| judge(shared_db(), c), |c| to_json(c));
}
