//! C04 Products, quotients and integer powers of quantities are dimensionally exact.

use super::common::*;
use crate::ast::{Expr, Lit, Op};
use crate::gen::{self, free_spelling, LitCfg};
use crate::runner::{CaseReport, Ctx};
use crate::tool::shared_db;
use proptest::prelude::*;
use serde_json::Value;

fn lit() -> impl Strategy<Value = Lit> {
    prop_oneof![4 => gen::small_lit(), 2 => gen::lit(LitCfg::PLAIN), 1 => Just(Lit::int(0))].prop_filter("no percent", |l| !l.text.ends_with('%'))
}

/// A leaf that is itself the result of a sum, difference or cast of two commensurable quantities, in
/// parentheses: a quantity that has already been through the additive / conversion code paths (and whatever
/// those leave attached to it) before it is multiplied, divided or raised.
fn computed_leaf() -> impl Strategy<Value = Expr> {
    (gen::commensurable_pair(2, 2), lit(), lit(), 0u8..3).prop_map(|((u1, u2), x, y, form)| {
        let a = Expr::Qty(x, u1);
        Expr::Paren(Box::new(match form {
            0 => Expr::bin(Op::Add, a, Expr::Qty(y, u2)),
            1 => Expr::bin(Op::Sub, a, Expr::Qty(y, u2)),
            _ => Expr::Cast(Box::new(a), u2),
        }))
    })
}

fn leaf() -> impl Strategy<Value = Expr> {
    prop_oneof![
        2 => computed_leaf(),
        6 => (lit(), free_spelling(2, 3)).prop_map(|(l, u)| Expr::Qty(l, u)),
        2 => (lit(), gen::single_unit()).prop_map(|(l, u)| Expr::Qty(l, u)),
        1 => lit().prop_map(Expr::Num),
    ]
}

pub fn tree() -> impl Strategy<Value = Expr> {
    leaf().prop_recursive(4, 12, 2, |inner| {
        prop_oneof![
            5 => (prop_oneof![Just(Op::Mul), Just(Op::Div)], inner.clone(), inner.clone()).prop_map(|(o, a, b)| Expr::bin(o, a, b)),
            2 => (inner.clone(), -3i32..=3).prop_map(|(a, n)| Expr::Pow(Box::new(a), n)),
            1 => inner.clone().prop_map(|a| Expr::Paren(Box::new(a))),
        ]
    })
}

fn classify(e: &Expr) -> (bool, Vec<&'static str>) {
    let mut derived_or_prefixed = false;
    let mut pow_on_unit = false;
    let mut cancelling_leaf = false;
    let mut zero_pow = false;
    e.visit(&mut |n| match n {
        Expr::Qty(_, u) => {
            if u.has_derived() || u.has_prefix() {
                derived_or_prefixed = true;
            }
            if u.cancelling() {
                cancelling_leaf = true;
            }
        }
        Expr::Pow(a, n) => {
            let mut has_unit = false;
            a.visit(&mut |x| {
                if matches!(x, Expr::Qty(..)) {
                    has_unit = true;
                }
            });
            if has_unit {
                pow_on_unit = true;
            }
            if *n == 0 {
                zero_pow = true;
            }
        }
        _ => {}
    });
    let mut c = vec![];
    let mut computed = false;
    e.visit(&mut |n| {
        if matches!(n, Expr::Cast(..) | Expr::Bin(Op::Add, ..) | Expr::Bin(Op::Sub, ..)) {
            computed = true;
        }
    });
    if computed {
        c.push("leaf-from-a-sum-or-cast");
    }
    if pow_on_unit {
        c.push("power-of-a-quantity");
    }
    if cancelling_leaf {
        c.push("cancelling-leaf");
    }
    if zero_pow {
        c.push("zero-power");
    }
    if derived_or_prefixed {
        c.push("derived-or-prefixed-unit");
    }
    (e.count_ops() >= 2 && derived_or_prefixed, c)
}

fn make_case(e: &Expr) -> Option<QCase> {
    let (nt, mut classes) = classify(e);
    let mut c = case_from_expr(e, &ObsEnv, nt, vec![])?;
    if matches!(c.expect, Expect::Error { .. }) {
        classes.push("error-case");
    }
    c.classes = classes.into_iter().map(|s| s.to_string()).collect();
    Some(c)
}

fn check(e: &Expr) -> CaseReport {
    match make_case(e) {
        Some(c) => {
            let mut rep = judge(shared_db(), &c);
            // track whether the tool re-derived a named unit for display
            if let crate::runner::Verdict::Pass = rep.verdict {
                if let Ok(rs) = crate::tool::run(shared_db(), &c.query) {
                    if let Some(crate::tool::R::Ok(v)) = rs.first() {
                        if v.unit.keys().any(|k| matches!(k, crate::tool::UKey::Derived(_))) {
                            rep.classes.push("result-shows-derived-unit");
                        }
                    }
                }
            }
            rep
        }
        None => CaseReport::discard("", "reference-unspecified"),
    }
}

pub fn run_check(ctx: &Ctx) {
    ctx.set_rule("expression trees over quantity leaves (compound, derived, prefixed, powered units incl. spellings whose base powers cancel; one leaf in eight is a parenthesised sum, difference or cast of two commensurable quantities) with * / ^n (n in -3..3 incl. 0) and parentheses; oracle: reference evaluation on (SI value, dimension vector) pairs, the tool's result normalised through the Compound mirror and own arithmetic must match exactly whatever unit it displays; no unit entry with power 0; non-trivial = >=2 operators and a derived or prefixed unit; distinct by query text");
    let corpus: Vec<(String, QCase)> = load_corpus("C04");
    let cases: Vec<QCase> = corpus.into_iter().map(|c| c.1).collect();
    ctx.run_list("corpus", &cases, |c| judge(shared_db(), c), |c| to_json(c));
    let n = ctx.tier.pick(100_000u64, 2_000_000);
    ctx.run_gen("generated", tree, n, check, |e| make_case(e).map(|c| to_json(&c)).unwrap_or(Value::Null));
}

pub fn replay(ctx: &Ctx, case: &Value) {
    let c: QCase = serde_json::from_value(case.clone()).expect("replay file holds a QCase");
    ctx.run_list("replay", &[c], |c| judge(shared_db(), c), |c| to_json(c));
}
