//! C04 Products, quotients and integer powers of quantities are dimensionally exact.

use super::common::*;
use crate::ast::{Expr, Lit, Op};
use crate::gen::{self, free_spelling, LitCfg};
use crate::runner::{CaseReport, Ctx};
use crate::tool::shared_db;
use proptest::prelude::*;
use serde_json::Value;

fn lit() -> impl Strategy<Value = Lit> {
    prop_oneof![4 => gen::small_lit(), 2 => gen::lit(LitCfg::PLAIN), 1 => Just(Lit::int(0))].prop_filter("no percent", |l| !l.text.ends_with('%'))
}

/// A leaf that is itself the result of a sum, difference or cast of two commensurable quantities, in
/// parentheses: a quantity that has already been through the additive / conversion code paths (and whatever
/// those leave attached to it) before it is multiplied, divided or raised.
fn computed_leaf() -> impl Strategy<Value = Expr> {
    (gen::commensurable_pair(2, 2), lit(), lit(), 0u8..3).prop_map(|((u1, u2), x, y, form)| {
        let a = Expr::Qty(x, u1);
        Expr::Paren(Box::new(match form {
            0 => Expr::bin(Op::Add, a, Expr::Qty(y, u2)),
            1 => Expr::bin(Op::Sub, a, Expr::Qty(y, u2)),
            _ => Expr::Cast(Box::new(a), u2),
        }))
    })
}

fn leaf() -> impl Strategy<Value = Expr> {
    prop_oneof![
        2 => computed_leaf(),
        6 => (lit(), free_spelling(2, 3)).prop_map(|(l, u)| Expr::Qty(l, u)),
        2 => (lit(), gen::single_unit()).prop_map(|(l, u)| Expr::Qty(l, u)),
        1 => lit().prop_map(Expr::Num),
    ]
}

pub fn tree() -> impl Strategy<Value = Expr> {
    leaf().prop_recursive(4, 12, 2, |inner| {
        prop_oneof![
            5 => (prop_oneof![Just(Op::Mul), Just(Op::Div)], inner.clone(), inner.clone()).prop_map(|(o, a, b)| Expr::bin(o, a, b)),
            2 => (inner.clone(), -3i32..=3).prop_map(|(a, n)| Expr::Pow(Box::new(a), n)),
            1 => inner.clone().prop_map(|a| Expr::Paren(Box::new(a))),
        ]
    })
}

/// Quantities with a small magnitude (so the exact value stays a few hundred bits) raised to integer powers well
/// beyond the -3..3 of the trees: -80..80, with the machine-word neighbours 31, 32, 33, 63, 64, 65 drawn often.
fn large_exponent() -> impl Strategy<Value = Expr> {
    let small = prop_oneof![Just("2"), Just("3"), Just("-2"), Just("0.5"), Just("10"), Just("1.5"), Just("-1"), Just("7")].prop_map(Lit::from_text);
    let n = prop_oneof![
        3 => -80i32..=80,
        2 => prop_oneof![Just(31i32), Just(32), Just(33), Just(40), Just(63), Just(64), Just(65), Just(-31), Just(-32), Just(-33), Just(-40), Just(-63), Just(-64), Just(-65), Just(-48), Just(-72)],
    ];
    let base = prop_oneof![
        3 => (small.clone(), gen::single_unit()).prop_map(|(l, u)| Expr::Qty(l, u)),
        2 => (small.clone(), free_spelling(2, 2)).prop_map(|(l, u)| Expr::Qty(l, u)),
        1 => small.prop_map(Expr::Num),
    ];
    (base, n, prop::option::weighted(0.3, (lit(), gen::single_unit()))).prop_map(|(b, n, other)| {
        let p = Expr::Pow(Box::new(Expr::Paren(Box::new(b))), n);
        match other {
            Some((l, u)) => Expr::bin(Op::Mul, p, Expr::Qty(l, u)),
            None => p,
        }
    })
}

fn classify(e: &Expr) -> (bool, Vec<&'static str>) {
    let mut derived_or_prefixed = false;
    let mut pow_on_unit = false;
    let mut cancelling_leaf = false;
    let mut zero_pow = false;
    e.visit(&mut |n| match n {
        Expr::Qty(_, u) => {
            if u.has_derived() || u.has_prefix() {
                derived_or_prefixed = true;
            }
            if u.cancelling() {
                cancelling_leaf = true;
            }
        }
        Expr::Pow(a, n) => {
            let mut has_unit = false;
            a.visit(&mut |x| {
                if matches!(x, Expr::Qty(..)) {
                    has_unit = true;
                }
            });
            if has_unit {
                pow_on_unit = true;
            }
            if *n == 0 {
                zero_pow = true;
            }
        }
        _ => {}
    });
    let mut c = vec![];
    let mut computed = false;
    e.visit(&mut |n| {
        if matches!(n, Expr::Cast(..) | Expr::Bin(Op::Add, ..) | Expr::Bin(Op::Sub, ..)) {
            computed = true;
        }
    });
    if computed {
        c.push("leaf-from-a-sum-or-cast");
    }
    if pow_on_unit {
        c.push("power-of-a-quantity");
    }
    if cancelling_leaf {
        c.push("cancelling-leaf");
    }
    if zero_pow {
        c.push("zero-power");
    }
    if derived_or_prefixed {
        c.push("derived-or-prefixed-unit");
    }
    (e.count_ops() >= 2 && derived_or_prefixed, c)
}

/// `(x u^a)^b` with a*b around the 32-bit boundary (x in {1, -1, 0, 2}; u an unprefixed base unit): when the product
/// fits an i32 the result has that power of u, otherwise the power cannot be represented and the result must be
/// an error — never a value with some other unit.
pub fn power_boundary() -> impl Strategy<Value = QCase> {
    const BASE: [(&str, usize); 7] = [("m", 1), ("s", 2), ("A", 3), ("K", 4), ("mol", 5), ("cd", 6), ("B", 7)];
    let big = || prop_oneof![Just(2i64), Just(3), Just(255), Just(256), Just(32767), Just(32768), Just(46340), Just(46341), Just(65535), Just(65536), Just(65537), Just(1 << 20), Just((1 << 31) - 1), Just(-32768), Just(-65536), Just(-46341)];
    // the exponent stays <= 2^20 in size: the evaluator multiplies |exponent| times
    let exp = || big().prop_filter("exponent of bounded size", |b| b.abs() <= 1 << 20);
    (0usize..7, big(), exp(), prop_oneof![Just("1"), Just("-1"), Just("0"), Just("1.0")], prop::option::weighted(0.3, prop_oneof![Just(" + 1 s"), Just(" * 1 m"), Just(" to kg")]))
        .prop_map(|(ui, a, b, x, tail)| {
            let (u, di) = BASE[ui];
            let query = format!("({} {}^{})^{}{}", x, u, a, b, tail.unwrap_or(""));
            let p = a * b;
            let fits = p >= i32::MIN as i64 && p <= i32::MAX as i64;
            if p == i32::MIN as i64 {
                // a power of exactly -2^31 is representable but cannot be displayed (Display negates it): the
                // open finding `unit-power-i32-overflow` recorded under C11 (DESIGN 5, #19) — excluded here by construction
                return QCase { query, expect: Expect::Error { why: "skip".into() }, nontrivial: false, classes: vec!["skipped".into()] };
            }
            // value: x^b for x in {1, -1, 0}: 0^negative is an error, (-1)^odd = -1
            let value: Option<i64> = match x {
                "0" => if b < 0 { None } else { Some(0) },
                "-1" => Some(if b % 2 == 0 { 1 } else { -1 }),
                _ => Some(1),
            };
            let expect = match (fits, value, tail) {
                (true, Some(v), None) => {
                    let mut dim = [0i32; 8];
                    dim[di] = p as i32;
                    Expect::Quantity { si: v.to_string(), dim }
                }
                // anything combined with the tail, an unrepresentable power, or 0^negative: an error
                // (`+ 1 s` / `to kg` mismatch in dimension; `* 1 m` is only generated as an error probe when the power overflows)
                (false, _, _) | (_, None, _) => Expect::Error { why: "power not representable or division by zero".into() },
                (true, Some(_), Some(t)) if t != " * 1 m" => Expect::Error { why: "dimension mismatch".into() },
                (true, Some(v), Some(_)) => {
                    let mut dim = [0i32; 8];
                    dim[di] = p as i32;
                    dim[1] += 1;
                    if dim[di] == i32::MAX && di == 1 {
                        return QCase { query, expect: Expect::Error { why: "skip".into() }, nontrivial: false, classes: vec!["skipped".into()] };
                    }
                    Expect::Quantity { si: v.to_string(), dim }
                }
            };
            QCase { query, expect, nontrivial: true, classes: vec![if fits { "power-within-32-bits" } else { "power-beyond-32-bits" }.to_string()] }
        })
        .prop_filter("skip markers", |c| c.nontrivial)
}

/// An exponent that carries a unit: raising to `(3 m)` has no meaning, the result must be an error whatever the
/// base is (a number, a quantity, zero) and however the exponent came to its unit (written, or computed).
fn exponent_with_a_unit() -> impl Strategy<Value = QCase> {
    let base = prop_oneof![Just("2"), Just("0"), Just("1"), Just("(2 m)"), Just("(3 kg/s)"), Just("(0 s)"), Just("(1 / 2)")];
    let unit = gen::single_unit().prop_map(|u| u.render());
    let exp = (prop_oneof![Just("1"), Just("2"), Just("0"), Just("-1"), Just("3")], unit, 0u8..4).prop_map(|(n, u, shape)| match shape {
        0 => format!("({} {})", n, u),
        1 => format!("(1 - 1 {})", u),
        2 => format!("({} {} * 1)", n, u),
        _ => format!("({} {} + {} {})", n, u, n, u),
    });
    (base, exp, any::<bool>()).prop_map(|(b, e, starstar)| QCase {
        query: format!("{} {} {}", b, if starstar { "**" } else { "^" }, e),
        expect: Expect::Error { why: "the exponent carries a unit".into() },
        nontrivial: true,
        classes: vec!["exponent-with-a-unit".to_string()],
    })
}

fn make_case(e: &Expr) -> Option<QCase> {
    let (nt, mut classes) = classify(e);
    let mut c = case_from_expr(e, &ObsEnv, nt, vec![])?;
    if matches!(c.expect, Expect::Error { .. }) {
        classes.push("error-case");
    }
    c.classes = classes.into_iter().map(|s| s.to_string()).collect();
    Some(c)
}

fn check(e: &Expr) -> CaseReport {
    match make_case(e) {
        Some(c) => {
            let mut rep = judge(shared_db(), &c);
            // track whether the tool re-derived a named unit for display
            if let crate::runner::Verdict::Pass = rep.verdict {
                if let Ok(rs) = crate::tool::run(shared_db(), &c.query) {
                    if let Some(crate::tool::R::Ok(v)) = rs.first() {
                        if v.unit.keys().any(|k| matches!(k, crate::tool::UKey::Derived(_))) {
                            rep.classes.push("result-shows-derived-unit");
                        }
                    }
                }
            }
            rep
        }
        None => CaseReport::discard("", "reference-unspecified"),
    }
}

pub fn run_check(ctx: &Ctx) {
    ctx.set_rule("expression trees over quantity leaves (compound, derived, prefixed, powered units incl. spellings whose base powers cancel; one leaf in eight is a parenthesised sum, difference or cast of two commensurable quantities) with * / ^n (n in -3..3 incl. 0) and parentheses; oracle: reference evaluation on (SI value, dimension vector) pairs, the tool's result normalised through the Compound mirror and own arithmetic must match exactly whatever unit it displays; no unit entry with power 0; small quantities raised to integer powers -80..80 (word-size neighbours 31..33, 63..65 drawn often); also `(x u^a)^b` with a*b around the 32-bit boundary (the power fits: that power of u; it does not: an error, never a value with another unit) and exponents that carry a unit, written or computed (always an error); non-trivial = >=2 operators and a derived or prefixed unit; distinct by query text");
    let corpus: Vec<(String, QCase)> = load_corpus("C04");
    let cases: Vec<QCase> = corpus.into_iter().map(|c| c.1).collect();
    ctx.run_list("corpus", &cases, |c| judge(shared_db(), c), |c| to_json(c));
    let n = ctx.tier.pick(100_000u64, 2_000_000);
    ctx.run_gen("exponent-with-a-unit", exponent_with_a_unit, 2_000, |c| judge(shared_db(), c), |c| to_json(c));
    ctx.run_gen("power-boundary", power_boundary, 3_000, |c| judge(shared_db(), c), |c| to_json(c));
    ctx.run_gen("large-exponents", large_exponent, n / 8, check, |e| make_case(e).map(|c| to_json(&c)).unwrap_or(Value::Null));
    ctx.run_gen("generated", tree, n, check, |e| make_case(e).map(|c| to_json(&c)).unwrap_or(Value::Null));
}

pub fn replay(ctx: &Ctx, case: &Value) {
    let c: QCase = serde_json::from_value(case.clone()).expect("replay file holds a QCase");
    ctx.run_list("replay", &[c], |c| judge(shared_db(), c), |c| to_json(c));
}
