//! C15 The on-disk index always recovers to the shipped data.

use super::c14::run_probe;
use super::common::*;
use crate::facts::{facts, phrase, typable};
use crate::runner::{CaseReport, Ctx};
use serde::{Deserialize, Serialize};
use serde_json::{json, Value};
use std::path::{Path, PathBuf};
use std::sync::OnceLock;

#[derive(Clone, Debug, Serialize, Deserialize, PartialEq)]
#[serde(tag = "state", rename_all = "snake_case")]
pub enum Prior {
    Absent,
    Complete,
    OtherVersion { stale_hash: bool },
    OtherData,
    MetaMissing,
    MetaTruncated { at: usize },
    MetaGarbage { variant: usize },
    IndexMissing,
    IndexEmptyDir,
    /// Files and directories next to the index that another release, or a run of it that was killed, may have
    /// left behind (`index.old/` with content, `index.tmp`, `meta.json.tmp`, `meta.json.bak`); with the metadata
    /// of another version (the index must be replaced) or current metadata.
    StraySiblings { other_version: bool },
    /// Well-formed metadata of the current version whose stored hash is an odd string: multi-byte characters at
    /// every small offset, empty, one character, 64 KiB long.
    MetaOddHash { variant: usize },
    /// Written by another release: meta.json names another version (a semver neighbour of the current one)
    /// and the index directory has the layout that release used (another tokenizer, other field names,
    /// files that are not an index at all, or the current layout holding other documents).
    ForeignRelease { version: String, layout: Layout, current_hash: bool },
    /// Any index state combined with any metadata state (the pair
    /// other-documents + fully current metadata is excluded: that metadata
    /// would legitimately vouch for the index).
    Combo { index: IndexState, meta: MetaState },
}

#[derive(Clone, Debug, Serialize, Deserialize, PartialEq)]
#[serde(rename_all = "snake_case")]
pub enum Layout {
    /// `name` indexed with the default word tokenizer instead of the prefix n-grams
    OtherTokenizer,
    /// payload and name fields called differently
    OtherFields,
    /// files that are not a tantivy index
    NotAnIndex,
    /// today's layout, other documents
    SameLayoutOtherDocuments,
}

#[derive(Clone, Debug, Serialize, Deserialize, PartialEq)]
#[serde(rename_all = "snake_case")]
pub enum IndexState {
    Complete,
    OtherDocuments,
    Missing,
    EmptyDir,
    /// the index's own meta.json emptied
    OwnMetaEmpty,
    /// the index's own meta.json cut off in the middle
    OwnMetaTruncated,
    /// the index's own meta.json removed
    OwnMetaMissing,
    /// `.managed.json` replaced by garbage
    ManagedGarbage,
}

#[derive(Clone, Debug, Serialize, Deserialize, PartialEq)]
#[serde(tag = "meta", rename_all = "snake_case")]
pub enum MetaState {
    Current,
    OtherVersion,
    StaleHash,
    OtherVersionStaleHash,
    Missing,
    Truncated { at: usize },
    Garbage { variant: usize },
    /// current version, no hash field
    NoHash,
    /// current hash, no version field
    NoVersion,
    /// current version, hash null
    NullHash,
}

#[derive(Clone, Debug, Serialize, Deserialize)]
pub struct History {
    pub prior: Prior,
    /// Each start: Some(crash point) or None (runs to completion).
    pub starts: Vec<Option<String>>,
}

pub const POINTS: [&str; 8] = ["index-opened", "after-delete-all", "add-document", "before-commit", "after-commit", "after-reload", "meta-created", "after-write-meta"];

struct Reference {
    work: PathBuf,
    qfile: PathBuf,
    queries: usize,
    answers: Vec<String>,
    meta: Value,
    template: PathBuf,
    /// An index directory holding other documents, built once before any
    /// child process is spawned (an open IndexWriter's lock file descriptor
    /// must never be inherited by a concurrently forked child).
    other_index: PathBuf,
    foreign_tokenizer: PathBuf,
    foreign_fields: PathBuf,
    n_docs: usize,
}

fn reference() -> &'static Reference {
    static R: OnceLock<Reference> = OnceLock::new();
    R.get_or_init(|| {
        let work = PathBuf::from(format!("{}/build/xdg/C15-{}", crate::runner::verif_root(), std::process::id()));
        let _ = std::fs::remove_dir_all(&work);
        std::fs::create_dir_all(&work).unwrap();
        // query set: unambiguous typable phrases (exactly one constant carries all the words) + probes
        let f = facts();
        let lowered: Vec<Vec<String>> = f.all.iter().map(|x| x.tokens.iter().map(|t| t.to_lowercase()).collect()).collect();
        let mut qs: Vec<String> = Vec::new();
        for x in f.all.iter().filter(|x| typable(&x.tokens)) {
            let ws: Vec<String> = x.tokens.iter().map(|t| t.to_lowercase()).collect();
            let n = lowered.iter().filter(|toks| ws.iter().all(|w| toks.iter().any(|t| t.starts_with(w.as_str())))).count();
            if n == 1 {
                qs.push(phrase(&x.tokens));
            }
        }
        qs.sort();
        qs.dedup();
        for p in ["zzzzqqqq", "xqxqxq wvwvwv", "nosuchthingever"] {
            qs.push(p.to_string());
        }
        let qfile = work.join("queries.txt");
        std::fs::write(&qfile, qs.join("\n")).unwrap();
        let mem = work.join("mem");
        std::fs::create_dir_all(&mem).unwrap();
        let answers = run_probe("mem", &mem, &qfile, &[], None).expect("reference in-memory session");
        // template of a complete run + the reference meta
        let template = work.join("template");
        std::fs::create_dir_all(&template).unwrap();
        let first = run_probe("open", &template, &qfile, &[], None).expect("reference on-disk session");
        assert_eq!(first.len(), answers.len());
        let meta: Value = serde_json::from_str(&std::fs::read_to_string(template.join("facts/meta.json")).expect("meta.json after a complete run")).unwrap();
        let other_index = work.join("other-index");
        seed_other_documents(&other_index);
        let foreign_tokenizer = work.join("foreign-tokenizer");
        seed_foreign_layout(&foreign_tokenizer, false);
        let foreign_fields = work.join("foreign-fields");
        seed_foreign_layout(&foreign_fields, true);
        Reference { work, qfile, queries: qs.len(), answers, meta, template, other_index, foreign_tokenizer, foreign_fields, n_docs: f.all.len() }
    })
}

fn copy_dir(from: &Path, to: &Path) {
    std::fs::create_dir_all(to).unwrap();
    for e in std::fs::read_dir(from).unwrap() {
        let e = e.unwrap();
        let p = e.path();
        let t = to.join(e.file_name());
        if p.is_dir() {
            copy_dir(&p, &t);
        } else {
            std::fs::copy(&p, &t).unwrap();
        }
    }
}

/// An index with the right schema but other documents (same words, other values).
fn seed_other_documents(index_dir: &Path) {
    use tantivy::schema::{IndexRecordOption, Schema, TextFieldIndexing, TextOptions, STORED};
    use tantivy::tokenizer::{LowerCaser, NgramTokenizer, TextAnalyzer};
    let _ = std::fs::remove_dir_all(index_dir);
    std::fs::create_dir_all(index_dir).unwrap();
    let text_field_indexing = TextFieldIndexing::default().set_tokenizer("ngram").set_index_option(IndexRecordOption::WithFreqsAndPositions);
    let text_options = TextOptions::default().set_indexing_options(text_field_indexing).set_stored();
    let mut sb = Schema::builder();
    let data = sb.add_bytes_field("data", STORED);
    let name = sb.add_text_field("name", text_options);
    let index = tantivy::Index::create_in_dir(index_dir, sb.build()).unwrap();
    index.tokenizers().register("ngram", TextAnalyzer::from(NgramTokenizer::new(1, 7, true)).filter(LowerCaser));
    let mut w = index.writer_with_num_threads(1, 15_000_000).unwrap();
    for f in facts().all.iter() {
        let c = anything::Constant {
            source: None,
            tokens: f.tokens.iter().map(|t| t.as_str().into()).collect(),
            description: "STALE DOCUMENT FROM OTHER DATA".into(),
            value: anything::Rational::new(42, 1),
            unit: anything::Compound::empty(),
        };
        let mut doc = tantivy::Document::default();
        doc.add_bytes(data, serde_cbor::to_vec(&c).unwrap());
        for t in &f.tokens {
            doc.add_text(name, t);
        }
        w.add_document(doc).unwrap();
    }
    w.commit().unwrap();
}

/// An index as another release might have laid it out: the word tokenizer on `name`, or other field names.
fn seed_foreign_layout(index_dir: &Path, other_fields: bool) {
    use tantivy::schema::{Schema, STORED, TEXT};
    let _ = std::fs::remove_dir_all(index_dir);
    std::fs::create_dir_all(index_dir).unwrap();
    let mut sb = Schema::builder();
    let data = sb.add_bytes_field(if other_fields { "payload" } else { "data" }, STORED);
    let name = sb.add_text_field(if other_fields { "title" } else { "name" }, TEXT | STORED);
    let index = tantivy::Index::create_in_dir(index_dir, sb.build()).unwrap();
    let mut w = index.writer_with_num_threads(1, 15_000_000).unwrap();
    for f in facts().all.iter().take(300) {
        let c = anything::Constant { source: None, tokens: f.tokens.iter().map(|t| t.as_str().into()).collect(), description: "DOCUMENT OF ANOTHER RELEASE".into(), value: anything::Rational::new(7, 1), unit: anything::Compound::empty() };
        let mut doc = tantivy::Document::default();
        doc.add_bytes(data, serde_cbor::to_vec(&c).unwrap());
        doc.add_text(name, &f.tokens.join(" "));
        w.add_document(doc).unwrap();
    }
    w.commit().unwrap();
}

/// Version strings next to the current one.
pub fn neighbour_versions(current: &str) -> Vec<String> {
    let parts: Vec<u64> = current.split('.').filter_map(|p| p.parse().ok()).collect();
    let mut v = vec![format!("{}-rc1", current), format!("v{}", current), format!("{} ", current), format!("{}.0", current), current.to_uppercase() + "x", "".to_string()];
    if parts.len() == 3 {
        let (a, b, c) = (parts[0], parts[1], parts[2]);
        v.extend([format!("{}.{}.{}", a, b, c + 1), format!("{}.{}.{}", a, b, c.saturating_sub(1)), format!("{}.{}.{}", a, b, c * 10), format!("{}.{}.{}", a, b + 1, c), format!("{}.{}.{}", a + 1, b, c), format!("{}.{}", a, b), format!("{}.{}.0{}", a, b, c)]);
    }
    v.retain(|x| x != current);
    v
}

fn prepare(dir: &Path, prior: &Prior) {
    let r = reference();
    let _ = std::fs::remove_dir_all(dir);
    std::fs::create_dir_all(dir).unwrap();
    let facts_dir = dir.join("facts");
    let meta = facts_dir.join("meta.json");
    let set_meta = |f: &dyn Fn(&mut Value)| {
        let mut v = r.meta.clone();
        f(&mut v);
        std::fs::write(&meta, v.to_string()).unwrap();
    };
    match prior {
        Prior::Absent => {}
        Prior::Complete => copy_dir(&r.template, dir),
        Prior::OtherVersion { stale_hash } => {
            copy_dir(&r.template, dir);
            set_meta(&|v| {
                v["version"] = json!("0.0.0-other");
                if *stale_hash {
                    v["database_hash"] = json!("deadbeef");
                }
            });
        }
        Prior::StraySiblings { other_version } => {
            copy_dir(&r.template, dir);
            let old = facts_dir.join("index.old");
            std::fs::create_dir_all(old.join("nested")).unwrap();
            std::fs::write(old.join("segment.store"), b"left behind").unwrap();
            std::fs::write(old.join("nested/more"), b"left behind").unwrap();
            std::fs::write(facts_dir.join("index.tmp"), b"left behind").unwrap();
            std::fs::write(facts_dir.join("meta.json.tmp"), b"{\"version\": \"x\"").unwrap();
            std::fs::write(facts_dir.join("meta.json.bak"), b"{}").unwrap();
            if *other_version {
                set_meta(&|v| {
                    v["version"] = json!("0.0.0-other");
                });
            }
        }
        Prior::MetaOddHash { variant } => {
            copy_dir(&r.template, dir);
            let k = variant % 20;
            let hash: String = match k {
                0 => String::new(),
                1 => "·".to_string(),
                2 => "x".repeat(65536),
                3 => "日本語のハッシュ値".to_string(),
                // a multi-byte character starting at byte offset 4..=19 of an otherwise plausible hash
                _ => format!("{}·{}", &"9a7f42b11904b4269a7f42b1"[..k], "1904b4269a7f42b1"),
            };
            set_meta(&|v| {
                v["database_hash"] = json!(hash);
            });
        }
        Prior::OtherData => {
            copy_dir(&r.template, dir);
            let _ = std::fs::remove_dir_all(facts_dir.join("index"));
            copy_dir(&r.other_index, &facts_dir.join("index"));
            set_meta(&|v| v["database_hash"] = json!("0123456789abcdef0123456789abcdef"));
        }
        Prior::MetaMissing => {
            copy_dir(&r.template, dir);
            let _ = std::fs::remove_file(&meta);
        }
        Prior::MetaTruncated { at } => {
            copy_dir(&r.template, dir);
            let t = std::fs::read(&meta).unwrap();
            let n = at % t.len().max(1);
            std::fs::write(&meta, &t[..n]).unwrap();
        }
        Prior::MetaGarbage { variant } => {
            copy_dir(&r.template, dir);
            let body: Vec<u8> = match variant % 8 {
                0 => b"null".to_vec(),
                1 => b"{}".to_vec(),
                2 => b"{\"version\": 5, \"database_hash\": [1,2,3]}".to_vec(),
                3 => vec![0xff, 0xfe, 0x00, 0x80, 0x7b, 0x22],
                4 => b"[]".to_vec(),
                5 => format!("{{\"version\": \"{}\", \"database_hash\": null}}", r.meta["version"].as_str().unwrap_or("")).into_bytes(),
                6 => vec![b'{'; 100_000],
                _ => b"\"just a string\"".to_vec(),
            };
            std::fs::write(&meta, body).unwrap();
        }
        Prior::IndexMissing => {
            copy_dir(&r.template, dir);
            let _ = std::fs::remove_dir_all(facts_dir.join("index"));
        }
        Prior::IndexEmptyDir => {
            copy_dir(&r.template, dir);
            let _ = std::fs::remove_dir_all(facts_dir.join("index"));
            std::fs::create_dir_all(facts_dir.join("index")).unwrap();
        }
        Prior::ForeignRelease { version, layout, current_hash } => {
            copy_dir(&r.template, dir);
            let idx = facts_dir.join("index");
            let _ = std::fs::remove_dir_all(&idx);
            match layout {
                Layout::OtherTokenizer => copy_dir(&r.foreign_tokenizer, &idx),
                Layout::OtherFields => copy_dir(&r.foreign_fields, &idx),
                Layout::SameLayoutOtherDocuments => copy_dir(&r.other_index, &idx),
                Layout::NotAnIndex => {
                    std::fs::create_dir_all(&idx).unwrap();
                    std::fs::write(idx.join("meta.json"), b"{\"this is\": \"not an index\"}").unwrap();
                    std::fs::write(idx.join("0000.store"), vec![0u8; 4096]).unwrap();
                }
            }
            set_meta(&|v| {
                v["version"] = json!(version);
                if !*current_hash {
                    v["database_hash"] = json!("00112233445566778899aabbccddeeff");
                }
            });
        }
        Prior::Combo { index, meta: m } => {
            copy_dir(&r.template, dir);
            let idx = facts_dir.join("index");
            match index {
                IndexState::Complete => {}
                IndexState::OtherDocuments => {
                    let _ = std::fs::remove_dir_all(&idx);
                    copy_dir(&r.other_index, &idx);
                }
                IndexState::Missing => {
                    let _ = std::fs::remove_dir_all(&idx);
                }
                IndexState::EmptyDir => {
                    let _ = std::fs::remove_dir_all(&idx);
                    std::fs::create_dir_all(&idx).unwrap();
                }
                IndexState::OwnMetaEmpty => {
                    let _ = std::fs::write(idx.join("meta.json"), b"");
                }
                IndexState::OwnMetaTruncated => {
                    if let Ok(t) = std::fs::read(idx.join("meta.json")) {
                        let _ = std::fs::write(idx.join("meta.json"), &t[..t.len() / 2]);
                    }
                }
                IndexState::OwnMetaMissing => {
                    let _ = std::fs::remove_file(idx.join("meta.json"));
                }
                IndexState::ManagedGarbage => {
                    let _ = std::fs::write(idx.join(".managed.json"), b"\xff\xfe not json {{{");
                }
            }
            let ver = r.meta["version"].clone();
            let hash = r.meta["database_hash"].clone();
            match m {
                MetaState::Current => {}
                MetaState::OtherVersion => set_meta(&|v| v["version"] = json!("9.9.9-other")),
                MetaState::StaleHash => set_meta(&|v| v["database_hash"] = json!("feedfacefeedfacefeedfacefeedface")),
                MetaState::OtherVersionStaleHash => set_meta(&|v| {
                    v["version"] = json!("9.9.9-other");
                    v["database_hash"] = json!("feedface");
                }),
                MetaState::Missing => {
                    let _ = std::fs::remove_file(&meta);
                }
                MetaState::Truncated { at } => {
                    let t = std::fs::read(&meta).unwrap();
                    let n = at % t.len().max(1);
                    std::fs::write(&meta, &t[..n]).unwrap();
                }
                MetaState::Garbage { variant } => {
                    let body: Vec<u8> = match variant % 5 {
                        0 => b"null".to_vec(),
                        1 => b"{}".to_vec(),
                        2 => b"{\"version\": 5, \"database_hash\": [1,2,3]}".to_vec(),
                        3 => vec![0xff, 0xfe, 0x00, 0x80, 0x7b, 0x22],
                        _ => b"[]".to_vec(),
                    };
                    std::fs::write(&meta, body).unwrap();
                }
                MetaState::NoHash => std::fs::write(&meta, json!({"version": ver}).to_string()).unwrap(),
                MetaState::NoVersion => std::fs::write(&meta, json!({"database_hash": hash}).to_string()).unwrap(),
                MetaState::NullHash => std::fs::write(&meta, json!({"version": ver, "database_hash": null}).to_string()).unwrap(),
            }
        }
    }
}

fn all_combos(seed: u64) -> Vec<Prior> {
    let metas = vec![
        MetaState::Current,
        MetaState::OtherVersion,
        MetaState::StaleHash,
        MetaState::OtherVersionStaleHash,
        MetaState::Missing,
        MetaState::Truncated { at: (seed % 50) as usize + 1 },
        MetaState::Garbage { variant: (seed % 5) as usize },
        MetaState::NoHash,
        MetaState::NoVersion,
        MetaState::NullHash,
    ];
    let mut v = Vec::new();
    for index in [IndexState::Complete, IndexState::OtherDocuments, IndexState::Missing, IndexState::EmptyDir, IndexState::OwnMetaEmpty, IndexState::OwnMetaTruncated, IndexState::OwnMetaMissing, IndexState::ManagedGarbage] {
        for m in &metas {
            if index == IndexState::OtherDocuments && *m == MetaState::Current {
                continue;
            }
            v.push(Prior::Combo { index: index.clone(), meta: m.clone() });
        }
    }
    v
}


// ---------------------------------------------------------------------------------------------------------
// "written for other data", for real: the data files the tool reads are replaced between starts.
//
// The harness profile is built with debug assertions, so the tool reads `<repo>/db/*` at run time (rust-embed);
// every child process gets a private mount namespace (`unshare -m`) in which a directory prepared by the harness
// is bind-mounted over `<repo>/db`.  Nothing in the repository is touched.  The oracle is the property's own: a
// fresh in-memory database started under the same data.

/// One set of data files.
#[derive(Clone, Debug, Serialize, Deserialize, PartialEq, Eq, Hash)]
pub enum DataSet {
    Shipped,
    /// The `nth` constant with a non-zero value in `file` gets another value (first limb of the numerator + 256).
    Changed { file: String, nth: usize, keep_size: bool, keep_mtime: bool },
}

#[derive(Clone, Debug, Serialize, Deserialize)]
pub struct DataHistory {
    /// data set in place at each start
    pub starts: Vec<DataSet>,
    /// a crash point for the first start that meets changed data (followed by one more start under the same data)
    pub crash: Option<String>,
}

fn namespaces_available() -> bool {
    static A: OnceLock<bool> = OnceLock::new();
    *A.get_or_init(|| {
        let probe = PathBuf::from(format!("{}/build/xdg/C15-ns-{}", crate::runner::verif_root(), std::process::id()));
        let _ = std::fs::create_dir_all(probe.join("a"));
        let _ = std::fs::create_dir_all(probe.join("b"));
        let _ = std::fs::write(probe.join("a/marker"), "x");
        let ok = std::process::Command::new("unshare")
            .arg("-m")
            .arg("sh")
            .arg("-c")
            .arg("mount --bind \"$1\" \"$2\" && test -f \"$2/marker\"")
            .arg("sh")
            .arg(probe.join("a"))
            .arg(probe.join("b"))
            .output()
            .map(|o| o.status.success())
            .unwrap_or(false);
        // the bind mount must not be visible outside the child's namespace
        let leaked = probe.join("b/marker").exists();
        let _ = std::fs::remove_dir_all(&probe);
        ok && !leaked
    })
}

fn gz(raw: &[u8], level: u32, comment: Option<usize>) -> Vec<u8> {
    use std::io::Write;
    let mut b = flate2::GzBuilder::new();
    if let Some(n) = comment {
        b = b.comment(vec![b'x'; n]);
    }
    let mut w = b.write(Vec::new(), flate2::Compression::new(level));
    w.write_all(raw).unwrap();
    w.finish().unwrap()
}

/// The document of `original` with the nth non-zero constant changed; `keep_size` pads (gzip comment) or trims
/// (the description of that constant) until the compressed file has exactly the original byte size.
fn changed_file(original: &[u8], nth: usize, keep_size: bool) -> Option<Vec<u8>> {
    use serde_cbor::Value as C;
    use std::io::Read;
    let mut raw = Vec::new();
    flate2::read::GzDecoder::new(original).read_to_end(&mut raw).ok()?;
    let mut doc: C = serde_cbor::from_slice(&raw).ok()?;
    let key = |s: &str| C::Text(s.to_string());
    let mut trim = 0usize;
    loop {
        let mut d = doc.clone();
        {
            let C::Map(root) = &mut d else { return None };
            let Some(C::Array(cs)) = root.get_mut(&key("constants")) else { return None };
            let mut seen = 0usize;
            let mut done = false;
            for c in cs.iter_mut() {
                let C::Map(c) = c else { continue };
                let limb_ok = matches!(c.get(&key("value")), Some(C::Array(v)) if matches!(v.get(0), Some(C::Array(n)) if matches!(n.get(1), Some(C::Array(ds)) if matches!(ds.get(0), Some(C::Integer(x)) if *x >= 0 && *x < (u32::MAX as i128) - 256))));
                if !limb_ok {
                    continue;
                }
                if seen < nth {
                    seen += 1;
                    continue;
                }
                if let Some(C::Array(v)) = c.get_mut(&key("value")) {
                    if let C::Array(n) = &mut v[0] {
                        if let C::Array(ds) = &mut n[1] {
                            if let C::Integer(x) = &mut ds[0] {
                                *x += 256;
                            }
                        }
                    }
                }
                if trim > 0 {
                    if let Some(C::Text(t)) = c.get_mut(&key("description")) {
                        let keep = t.chars().count().saturating_sub(trim).max(1);
                        *t = t.chars().take(keep).collect();
                    }
                }
                done = true;
                break;
            }
            if !done {
                return None;
            }
        }
        let bytes = serde_cbor::to_vec(&d).ok()?;
        if !keep_size {
            let out = gz(&bytes, 6, None);
            // a different size is wanted: pad by three bytes if it happens to coincide
            return Some(if out.len() == original.len() { gz(&bytes, 6, Some(2)) } else { out });
        }
        for level in (1..=9).rev() {
            let plain = gz(&bytes, level, None);
            if plain.len() == original.len() {
                return Some(plain);
            }
            if plain.len() < original.len() {
                let padded = gz(&bytes, level, Some(original.len() - plain.len() - 1));
                if padded.len() == original.len() {
                    return Some(padded);
                }
            }
        }
        trim += 1;
        if trim > 40 {
            return None;
        }
    }
}

/// Directory holding the data files of `d` (prepared once, read-only afterwards).
fn dataset_dir(d: &DataSet) -> Option<PathBuf> {
    static DONE: OnceLock<std::sync::Mutex<std::collections::HashMap<DataSet, Option<PathBuf>>>> = OnceLock::new();
    let m = DONE.get_or_init(Default::default);
    let mut g = m.lock().unwrap();
    if let Some(p) = g.get(d) {
        return p.clone();
    }
    let r = reference();
    let dir = r.work.join(format!("data-{}", g.len()));
    let src = PathBuf::from(format!("{}/db", crate::runner::repo_root()));
    let _ = std::fs::create_dir_all(&dir);
    let cp = std::process::Command::new("cp").arg("-p").arg("-r").arg(format!("{}/.", src.display())).arg(&dir).output();
    let mut ok = cp.map(|o| o.status.success()).unwrap_or(false);
    if let DataSet::Changed { file, nth, keep_size, keep_mtime } = d {
        ok = ok
            && match std::fs::read(src.join(file)).ok().and_then(|orig| changed_file(&orig, *nth, *keep_size)) {
                Some(bytes) => {
                    let target = dir.join(file);
                    let w = std::fs::write(&target, &bytes).is_ok();
                    let t = if *keep_mtime {
                        std::process::Command::new("touch").arg("-r").arg(src.join(file)).arg(&target).output().map(|o| o.status.success()).unwrap_or(false)
                    } else {
                        true
                    };
                    w && t
                }
                None => false,
            };
    }
    let out = if ok { Some(dir) } else { None };
    g.insert(d.clone(), out.clone());
    out
}

fn run_probe_under(data: &Path, mode: &str, xdg: &Path, qfile: &Path, crash: Option<&str>) -> Result<Vec<String>, String> {
    let mut cmd = std::process::Command::new("unshare");
    cmd.arg("-m").arg("sh").arg("-c").arg("mount --bind \"$1\" \"$2\" || exit 97; shift 2; exec \"$@\"").arg("sh").arg(data).arg(format!("{}/db", crate::runner::repo_root())).arg(crate::props::c14::dbprobe_path()).arg(mode).arg(qfile);
    cmd.env("XDG_DATA_HOME", xdg).env_remove("RUST_LOG").env_remove("ANYTHING_VERIF_CRASH");
    if let Some(p) = crash {
        cmd.env("ANYTHING_VERIF_CRASH", p);
    }
    let out = cmd.output().map_err(|e| format!("spawn failed: {}", e))?;
    if !out.status.success() {
        use std::os::unix::process::ExitStatusExt;
        if let Some(sig) = out.status.signal() {
            return Err(format!("signal: {}", sig));
        }
        // `exec` keeps the pid, so an abort of the probe shows as 128+6 through sh only when sh did not exec; keep both
        if out.status.code() == Some(134) {
            return Err("signal: 6".to_string());
        }
        if out.status.code() == Some(97) {
            return Err("mount failed".to_string());
        }
        return Err(format!("{:?} stderr={}", out.status, String::from_utf8_lossy(&out.stderr).chars().take(300).collect::<String>()));
    }
    Ok(String::from_utf8_lossy(&out.stdout).lines().map(|l| l.to_string()).collect())
}

/// Answers of a fresh in-memory database under the data set (once per data set).
fn mem_answers(d: &DataSet) -> Option<Vec<String>> {
    static DONE: OnceLock<std::sync::Mutex<std::collections::HashMap<DataSet, Option<Vec<String>>>>> = OnceLock::new();
    let m = DONE.get_or_init(Default::default);
    if let Some(a) = m.lock().unwrap().get(d) {
        return a.clone();
    }
    let r = reference();
    let dir = dataset_dir(d)?;
    let xdg = r.work.join(format!("mem-under-{}", dir.file_name().unwrap().to_string_lossy()));
    let _ = std::fs::create_dir_all(&xdg);
    let a = run_probe_under(&dir, "mem", &xdg, &r.qfile, None).ok();
    m.lock().unwrap().insert(d.clone(), a.clone());
    a
}

fn exec_data(h: &DataHistory, id: u64) -> CaseReport {
    let r = reference();
    let key = serde_json::to_string(h).unwrap();
    if !namespaces_available() {
        return CaseReport::discard(key, "mount-namespaces-unavailable");
    }
    let dir = r.work.join(format!("d{}", id));
    let _ = std::fs::remove_dir_all(&dir);
    std::fs::create_dir_all(&dir).unwrap();
    let fail = |sig: &str, detail: Value| {
        let _ = std::fs::remove_dir_all(&dir);
        CaseReport::fail(key.clone(), sig, json!({"data_history": h, "detail": detail}))
    };
    let discard = |why: &'static str| {
        let _ = std::fs::remove_dir_all(&dir);
        CaseReport::discard(key.clone(), why)
    };
    let shipped = match mem_answers(&DataSet::Shipped) {
        Some(a) => a,
        None => return discard("no-reference-under-a-bind-mount"),
    };
    if shipped != r.answers {
        // the bind-mounted copy of the shipped data must behave as the data in place does
        return discard("bind-mounted-copy-behaves-differently");
    }
    let mut crash_pending = h.crash.clone();
    let mut visible_change = false;
    let mut prev: Option<&DataSet> = None;
    for (i, d) in h.starts.iter().enumerate() {
        let (data, expected) = match (dataset_dir(d), mem_answers(d)) {
            (Some(a), Some(b)) => (a, b),
            _ => return discard("data-set-could-not-be-prepared"),
        };
        if expected.len() != r.answers.len() {
            return discard("reference-answer-count");
        }
        if let Some(p) = prev {
            if p != d && mem_answers(p).as_ref() != Some(&expected) {
                visible_change = true;
            }
        }
        let changed_now = prev.map(|p| p != d).unwrap_or(false);
        if changed_now {
            if let Some(p) = crash_pending.take() {
                match run_probe_under(&data, "open", &dir, &r.qfile, Some(&p)) {
                    Err(s) if s.contains("signal: 6") => {}
                    Err(s) if s == "mount failed" => return discard("mount-failed"),
                    Err(s) => return fail("start-fails", json!({"start": i, "status": s, "crash_point": p})),
                    Ok(_) => {} // the crash point was not reached
                }
            }
        }
        match run_probe_under(&data, "open", &dir, &r.qfile, None) {
            Ok(answers) => {
                if answers.len() != expected.len() {
                    return fail("answer-count", json!({"start": i, "answers": answers.len(), "expected": expected.len()}));
                }
                if let Some(k) = (0..answers.len()).find(|k| answers[*k] != expected[*k]) {
                    return fail("answers-differ-from-in-memory-after-the-data-changed", json!({"start": i, "data": d, "first_difference": k, "got": answers[k], "expected": expected[k], "differences": (0..answers.len()).filter(|k| answers[*k] != expected[*k]).count()}));
                }
            }
            Err(s) if s == "mount failed" => return discard("mount-failed"),
            Err(s) => return fail("start-fails", json!({"start": i, "status": s})),
        }
        prev = Some(d);
    }
    let _ = std::fs::remove_dir_all(&dir);
    let mut classes = vec!["data-files-replaced"];
    if h.crash.is_some() {
        classes.push("data-files-replaced+crash");
    }
    if h.starts.iter().any(|d| matches!(d, DataSet::Changed { keep_size: true, keep_mtime: true, .. })) {
        classes.push("data-files-replaced(same-size-and-time-stamp)");
    }
    CaseReport::pass(key, visible_change, classes)
}

fn data_histories(tier: crate::runner::Tier) -> Vec<DataHistory> {
    let mut variants: Vec<DataSet> = Vec::new();
    let files: [(&str, &[usize]); 3] = [("files.bin.gz", &[0, 1]), ("astronomics.bin.gz", &[0, 7, 200]), ("populations.bin.gz", &[0, 3, 150])];
    for (f, nths) in files {
        for (k, nth) in nths.iter().enumerate() {
            if tier == crate::runner::Tier::Quick && k > 0 && f != "files.bin.gz" {
                continue;
            }
            for (ks, km) in [(true, true), (true, false), (false, true), (false, false)] {
                variants.push(DataSet::Changed { file: f.to_string(), nth: *nth, keep_size: ks, keep_mtime: km });
            }
        }
    }
    let mut hs = Vec::new();
    for (i, v) in variants.iter().enumerate() {
        let s = DataSet::Shipped;
        hs.push(DataHistory { starts: vec![s.clone(), v.clone(), v.clone()], crash: None });
        hs.push(DataHistory { starts: vec![v.clone(), s.clone(), s.clone()], crash: None });
        let w = &variants[(i + 5) % variants.len()];
        hs.push(DataHistory { starts: vec![v.clone(), w.clone(), w.clone(), s.clone()], crash: None });
        let p = POINTS[i % POINTS.len()];
        hs.push(DataHistory { starts: vec![s.clone(), v.clone(), v.clone()], crash: Some(if p == "add-document" { format!("add-document@{}", 1 + (i * 37) % 800) } else { p.to_string() }) });
    }
    hs
}

fn meta_is_current(dir: &Path) -> bool {
    let r = reference();
    match std::fs::read_to_string(dir.join("facts/meta.json")).ok().and_then(|t| serde_json::from_str::<Value>(&t).ok()) {
        Some(v) => v.get("version") == r.meta.get("version") && v.get("database_hash") == r.meta.get("database_hash") && v["version"].is_string(),
        None => false,
    }
}

fn exec(h: &History, id: u64) -> CaseReport {
    let r = reference();
    let key = serde_json::to_string(h).unwrap();
    let dir = r.work.join(format!("h{}", id));
    let t0 = std::time::Instant::now();
    prepare(&dir, &h.prior);
    let t_prep = t0.elapsed();
    let _timer = Timer(t0, t_prep, key.clone());
    let mut classes: Vec<&'static str> = vec![];
    let mut crashed_mid_build = false;
    let mut nontrivial = false;
    let mut claimed_current_after_crash = false;
    let fail = |sig: &str, detail: Value| {
        let _ = std::fs::remove_dir_all(&dir);
        CaseReport::fail(key.clone(), sig, json!({"history": h, "detail": detail}))
    };
    for (i, st) in h.starts.iter().enumerate() {
        let is_strace = st.as_ref().map(|p| p.starts_with("strace:")).unwrap_or(false);
        let env: Vec<(&str, String)> = match st {
            Some(p) if !is_strace => vec![("ANYTHING_VERIF_CRASH", p.clone())],
            _ => vec![],
        };
        let res = run_probe("open", &dir, &r.qfile, &env, if is_strace { st.as_deref() } else { None });
        match res {
            Ok(answers) => {
                // the start completed (a crash point that was not reached counts as completing)
                if answers.len() != r.answers.len() {
                    return fail("answer-count", json!({"start": i, "answers": answers.len(), "expected": r.answers.len()}));
                }
                if let Some(k) = (0..answers.len()).find(|k| answers[*k] != r.answers[*k]) {
                    let sig = if claimed_current_after_crash { "recorded-current-before-complete" } else { "answers-differ-from-in-memory" };
                    return fail(sig, json!({"start": i, "first_difference": k, "got": answers[k], "expected": r.answers[k], "differences": (0..answers.len()).filter(|k| answers[*k] != r.answers[*k]).count()}));
                }
                if !meta_is_current(&dir) {
                    return fail("meta-not-current-after-complete-start", json!({"start": i, "meta": std::fs::read_to_string(dir.join("facts/meta.json")).unwrap_or_default().chars().take(200).collect::<String>()}));
                }
                if crashed_mid_build {
                    nontrivial = true;
                    classes.push("recovered-after-mid-build-crash");
                }
                claimed_current_after_crash = false;
                crashed_mid_build = false;
            }
            Err(status) => {
                if st.is_none() {
                    return fail("start-fails", json!({"start": i, "status": status}));
                }
                let killed = if is_strace { status.contains("signal: 9") } else { status.contains("signal: 6") };
                if !killed {
                    return fail("start-fails", json!({"start": i, "status": status, "crash_point": st}));
                }
                let p = st.as_ref().unwrap();
                if is_strace {
                    crashed_mid_build = true;
                    classes.push("syscall-kill");
                }
                if p.starts_with("add-document") || p == "after-delete-all" || p == "before-commit" || p == "after-commit" || p == "after-reload" || p == "meta-created" {
                    crashed_mid_build = true;
                }
                classes.push("crash");
                // "never records the index as current before it is completely committed":
                // if meta.json now claims current, the next start will not rebuild and must still answer correctly
                claimed_current_after_crash = meta_is_current(&dir);
                if claimed_current_after_crash {
                    classes.push("meta-current-after-crash");
                }
            }
        }
    }
    // a history must end with a completing start to be judged; the generator guarantees it
    let _ = std::fs::remove_dir_all(&dir);
    classes.sort();
    classes.dedup();
    classes.push(match h.prior {
        Prior::Absent => "prior:absent",
        Prior::Complete => "prior:complete",
        Prior::OtherVersion { .. } => "prior:other-version",
        Prior::OtherData => "prior:other-data",
        Prior::MetaMissing => "prior:meta-missing",
        Prior::MetaTruncated { .. } => "prior:meta-truncated",
        Prior::MetaGarbage { .. } => "prior:meta-garbage",
        Prior::StraySiblings { .. } => "prior:stray-siblings",
        Prior::MetaOddHash { .. } => "prior:meta-odd-hash",
        Prior::IndexMissing => "prior:index-missing",
        Prior::IndexEmptyDir => "prior:index-empty-dir",
        Prior::ForeignRelease { .. } => "prior:foreign-release",
        Prior::Combo { index: IndexState::OtherDocuments, .. } => "prior:combo-other-documents",
        Prior::Combo { index: IndexState::Complete, .. } => "prior:combo-complete-index",
        Prior::Combo { .. } => "prior:combo-missing-or-empty-index",
    });
    CaseReport::pass(key, nontrivial, classes)
}

struct Timer(std::time::Instant, std::time::Duration, String);
impl Drop for Timer {
    fn drop(&mut self) {
        if std::env::var("VERIF_VERBOSE").map(|v| v == "2").unwrap_or(false) {
            eprintln!("  history {:.2}s (prepare {:.2}s) {}", self.0.elapsed().as_secs_f64(), self.1.as_secs_f64(), self.2);
        }
    }
}

fn priors(seed: u64) -> Vec<Prior> {
    vec![
        Prior::Absent,
        Prior::Complete,
        Prior::OtherVersion { stale_hash: false },
        Prior::OtherVersion { stale_hash: true },
        Prior::OtherData,
        Prior::MetaMissing,
        Prior::MetaTruncated { at: (seed % 60) as usize + 1 },
        Prior::MetaGarbage { variant: (seed % 8) as usize },
        Prior::IndexMissing,
        Prior::IndexEmptyDir,
        Prior::StraySiblings { other_version: true },
        Prior::StraySiblings { other_version: false },
        Prior::MetaOddHash { variant: (seed % 20) as usize },
    ]
}

fn mix(a: u64, b: u64) -> u64 {
    let mut x = a.wrapping_mul(0x9E3779B97F4A7C15) ^ b.wrapping_add(0x7F4A7C15);
    x = (x ^ (x >> 29)).wrapping_mul(0xBF58476D1CE4E5B9);
    x ^ (x >> 32)
}

fn point(h: u64, n_docs: usize) -> String {
    let p = POINTS[(h % POINTS.len() as u64) as usize];
    if p == "add-document" {
        format!("add-document@{}", 1 + (h >> 8) % n_docs as u64)
    } else {
        p.to_string()
    }
}

pub fn run_check(ctx: &Ctx) {
    ctx.set_rule("fault histories = prior directory state (absent, complete, other version with current/stale hash, written by a neighbouring release (13 version strings next to the current one x index laid out with another tokenizer / other field names / not an index / other documents), other data over an index holding other documents, meta.json missing / truncated / garbage, index directory missing / empty / with its own meta.json emptied, truncated or removed / with a garbage .managed.json, stray siblings left behind next to the index (index.old/, index.tmp, meta.json.tmp), well-formed metadata with an odd hash string (multi-byte characters at every small offset, empty, 64 KiB)) x crash point (hooks: index opened, after delete_all_documents, after the k-th add_document, before/after commit, after reload, between creating and writing meta.json, after writing it) x 1-3 follow-up starts (each crashing at another point or completing), every start a child process calling Db::open under a private XDG_DATA_HOME and aborting at the selected point; oracle: every completing start answers the query set (every unambiguous typable fact phrase plus not-found probes) exactly like a fresh in-memory database and leaves meta.json = {current version, current hash}; after a crash that leaves meta.json claiming `current`, the next start (which will not rebuild) must still answer correctly; also histories in which the data files the tool reads are really replaced between starts (a constant of files/astronomics/populations gets another value; the new file with the same or another byte size, the same or a new time stamp; shipped -> changed -> changed, changed -> shipped -> shipped, changed -> other change -> shipped, and with a crash at a hook point in the first start that meets the new data), each start in a private mount namespace with the data directory bind-mounted over <repo>/db, judged against a fresh in-memory database under the same data; non-trivial = a crash between the first document and the metadata write followed by a completing start, or a data replacement that changes an answer; distinct by history");
    ctx.assume("a crash is a process abort at a hook point (files already written stay visible); torn writes inside a single write call are modelled only through truncated/garbage meta.json prior states");
    let r = reference();
    ctx.put("query_set", json!(r.queries));
    ctx.put("documents", json!(r.n_docs));
    let corpus: Vec<(String, History)> = load_corpus("C15");
    let mut all: Vec<History> = corpus.into_iter().map(|c| c.1).collect();
    let n_corpus = all.len();
    // systematic: every prior x every named point x one completing follow-up
    for p in priors(ctx.seed) {
        all.push(History { prior: p.clone(), starts: vec![None] });
        all.push(History { prior: p.clone(), starts: vec![None, None] });
        for pt in POINTS {
            let name = if pt == "add-document" { format!("add-document@{}", 1 + mix(ctx.seed, 5) % r.n_docs as u64) } else { pt.to_string() };
            all.push(History { prior: p.clone(), starts: vec![Some(name), None] });
        }
    }
    // every index state x every metadata state, completing start and one crash point each (rotating)
    for (ci, p) in all_combos(ctx.seed).into_iter().enumerate() {
        all.push(History { prior: p.clone(), starts: vec![None, None] });
        let pt = POINTS[(ci + ctx.seed as usize) % POINTS.len()];
        let name = if pt == "add-document" { format!("add-document@{}", 1 + mix(ctx.seed, ci as u64) % r.n_docs as u64) } else { pt.to_string() };
        all.push(History { prior: p.clone(), starts: vec![Some(name), None] });
        if ctx.tier == crate::runner::Tier::Thorough {
            for pt in POINTS {
                let name = if pt == "add-document" { format!("add-document@{}", 1 + mix(ctx.seed, 77 + ci as u64) % r.n_docs as u64) } else { pt.to_string() };
                all.push(History { prior: p.clone(), starts: vec![Some(name), None] });
            }
        }
    }
    // written by another release: every neighbouring version string x every foreign layout
    let current_version = r.meta["version"].as_str().unwrap_or("").to_string();
    let versions = neighbour_versions(&current_version);
    ctx.put("neighbour_versions", json!(versions));
    for (vi, version) in versions.iter().enumerate() {
        for (li, layout) in [Layout::OtherTokenizer, Layout::OtherFields, Layout::NotAnIndex, Layout::SameLayoutOtherDocuments].into_iter().enumerate() {
            let prior = Prior::ForeignRelease { version: version.clone(), layout, current_hash: (vi + li) % 3 == 0 };
            all.push(History { prior: prior.clone(), starts: vec![None, None] });
            if ctx.tier == crate::runner::Tier::Thorough || (vi + li) % 4 == 0 {
                let pt = POINTS[(vi * 4 + li + ctx.seed as usize) % POINTS.len()];
                let name = if pt == "add-document" { format!("add-document@{}", 1 + mix(ctx.seed, (vi * 4 + li) as u64) % r.n_docs as u64) } else { pt.to_string() };
                all.push(History { prior, starts: vec![Some(name), None] });
            }
        }
    }
    // every odd stored hash once
    for k in 0..20usize {
        all.push(History { prior: Prior::MetaOddHash { variant: k }, starts: vec![None, None] });
    }
    // boundary document counts
    for k in [1usize, 2, r.n_docs - 1, r.n_docs] {
        all.push(History { prior: Prior::Absent, starts: vec![Some(format!("add-document@{}", k)), None] });
        all.push(History { prior: Prior::OtherData, starts: vec![Some(format!("add-document@{}", k)), None, None] });
    }
    // random longer histories
    let nrand = ctx.tier.pick(500u64, 6000);
    for i in 0..nrand {
        let h = mix(ctx.seed, 1000 + i);
        let ps = priors(h);
        let combos = all_combos(h);
        let prior = match h % 16 {
            10 => Prior::MetaTruncated { at: (h >> 20) as usize % 80 },
            11 => Prior::MetaGarbage { variant: (h >> 20) as usize },
            12..=15 => combos[((h >> 24) % combos.len() as u64) as usize].clone(),
            k => ps[(k % ps.len() as u64) as usize].clone(),
        };
        let n = 1 + (h >> 12) % 3;
        let mut starts: Vec<Option<String>> = (0..n).map(|j| if mix(h, j) % 4 == 0 { None } else { Some(point(mix(h, 50 + j), r.n_docs)) }).collect();
        starts.push(None);
        all.push(History { prior, starts });
    }
    ctx.put("systematic_histories", json!(all.len() as u64 - nrand - n_corpus as u64));
    // hook-free tier: kill at the n-th system call of a class (strace fault injection), thorough only
    let have_strace = std::process::Command::new("strace").arg("-V").output().is_ok();
    if ctx.tier == crate::runner::Tier::Quick && have_strace {
        // a small hook-free sweep in the quick tier too: a kill at the first calls of the directory-changing system
        // calls, on the states in which the index directory must be replaced (crash windows that lie between
        // the named hook points, or in code that has no hooks)
        let mut k = 0usize;
        for sc in ["rename", "renameat", "renameat2", "mkdir", "mkdirat", "rmdir", "unlink", "unlinkat"] {
            for n in 1..=6u32 {
                let priors = [Prior::OtherVersion { stale_hash: false }, Prior::Combo { index: IndexState::Complete, meta: MetaState::StaleHash }, Prior::StraySiblings { other_version: true }, Prior::IndexMissing];
                k += 1;
                all.push(History { prior: priors[k % priors.len()].clone(), starts: vec![Some(format!("strace:{}@{}", sc, n)), None, None] });
            }
        }
    }
    if ctx.tier == crate::runner::Tier::Thorough && have_strace {
        let classes = ["write", "pwrite64", "fsync", "fdatasync", "rename", "renameat", "openat", "unlink", "unlinkat", "mkdir", "ftruncate", "close", "mmap", "munmap", "fcntl", "flock"];
        let mut ns: Vec<u32> = (1..=40).collect();
        ns.extend((45..=400).step_by(5));
        let mut k = 0u64;
        for sc in classes {
            for n in &ns {
                for prior in [Prior::Absent, Prior::Combo { index: IndexState::Complete, meta: MetaState::StaleHash }, Prior::IndexMissing] {
                    // rotate priors to bound the cost: every point with one prior, every third with all
                    k += 1;
                    if prior != Prior::Absent && (k + *n as u64) % 3 != 0 {
                        continue;
                    }
                    all.push(History { prior, starts: vec![Some(format!("strace:{}@{}", sc, n)), None] });
                }
            }
        }
        ctx.put("syscall_kill_sweep", json!({"classes": classes, "points_per_class": ns.len()}));
    }
    let items: Vec<(u64, History)> = all.into_iter().enumerate().map(|(i, h)| (i as u64, h)).collect();
    ctx.run_enum("histories", items.len() as u64, |i| Some(items[i as usize].clone()), |(id, h)| exec(h, *id), |(_, h)| to_json(h));
    // the data files themselves are replaced between starts (private mount namespace per child process)
    if namespaces_available() {
        let dh: Vec<(u64, DataHistory)> = data_histories(ctx.tier).into_iter().enumerate().map(|(i, h)| (i as u64, h)).collect();
        // prepare every data set and its in-memory reference before the parallel part
        for (_, h) in &dh {
            for d in &h.starts {
                let _ = mem_answers(d);
            }
        }
        ctx.put("data_replacement_histories", json!(dh.len()));
        ctx.run_enum("data-files-replaced", dh.len() as u64, |i| Some(dh[i as usize].clone()), |(id, h)| exec_data(h, *id), |(_, h)| json!({"data_history": h}));
    } else {
        ctx.assume("mount namespaces (unshare -m + bind mount) are not available here: the histories that replace the data files themselves were skipped; 'written for other data' is then only modelled by a stale hash over an index holding other documents");
    }
    let _ = std::fs::remove_dir_all(&r.work);
}

pub fn replay(ctx: &Ctx, case: &Value) {
    if let Some(h) = case.get("data_history") {
        let h: DataHistory = serde_json::from_value(h.clone()).expect("data history");
        ctx.run_list("replay", &[h], |h| exec_data(h, 0), |h| json!({"data_history": h}));
        let _ = std::fs::remove_dir_all(&reference().work);
        return;
    }
    let h: History = serde_json::from_value(case.clone()).expect("replay file holds a History");
    ctx.run_list("replay", &[h], |h| exec(h, 999_999), |h| to_json(h));
    let _ = std::fs::remove_dir_all(&reference().work);
}
