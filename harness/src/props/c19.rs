//! C19 The command line prints exactly what the library computed.

use super::common::*;
use crate::ast::{render_canonical, Expr, Lit};
use crate::decimal::parse_printed;
use crate::gen::{self, LitCfg, TreeCfg};
use crate::runner::{guarded, pick_idx, watch_begin, watch_end, CaseReport, Ctx};
use anything::rational::DisplaySpec;
use anything::{Db, Options};
use codespan_reporting::diagnostic::{Diagnostic, Label};
use codespan_reporting::files::SimpleFiles;
use codespan_reporting::term;
use codespan_reporting::term::termcolor::NoColor;
use num::{One, Signed};
use proptest::prelude::*;
use serde::{Deserialize, Serialize};
use serde_json::{json, Value};
use std::io::Write;
use std::path::PathBuf;
use std::process::Command;
use std::sync::OnceLock;

#[derive(Clone, Debug, Serialize, Deserialize)]
pub struct CliCase {
    pub query: String,
}

struct Env {
    xdg: PathBuf,
    any: PathBuf,
}

fn env() -> &'static Env {
    static E: OnceLock<Env> = OnceLock::new();
    E.get_or_init(|| {
        let xdg = PathBuf::from(format!("{}/build/xdg/C19-{}", crate::runner::verif_root(), std::process::id()));
        let _ = std::fs::remove_dir_all(&xdg);
        std::fs::create_dir_all(&xdg).expect("private data dir");
        std::env::set_var("XDG_DATA_HOME", &xdg);
        // the first start builds the on-disk index; later per-thread opens only read it
        drop(Db::open().expect("Db::open under a private XDG_DATA_HOME"));
        let any = std::env::current_exe().unwrap().parent().unwrap().join("any");
        Env { xdg, any }
    })
}

/// The on-disk database the binary also uses, one handle per thread (`Db` need not be `Sync`).
fn cli_db() -> &'static Db {
    thread_local! {
        static DB: &'static Db = {
            env();
            Box::leak(Box::new(Db::open().expect("Db::open under a private XDG_DATA_HOME")))
        };
    }
    DB.with(|d| *d)
}

pub fn cleanup() {
    let e = env();
    let _ = std::fs::remove_dir_all(&e.xdg);
}

/// Singular and plural display name of every registry unit, read once from
/// single-unit compounds of power one (the case the crate's doc test pins).
fn unit_names() -> &'static std::collections::BTreeMap<crate::tool::UKey, (String, String)> {
    static N: OnceLock<std::collections::BTreeMap<crate::tool::UKey, (String, String)>> = OnceLock::new();
    N.get_or_init(|| {
        let v = crate::units_ref::vocab();
        let mut m = std::collections::BTreeMap::new();
        for u in &v.units {
            // prefix -bias so that no prefix symbol is printed (kilogram: -3 -> plain `g`)
            if let Some((cb, _)) = super::c17::compound_cbor(&[(u.variant.clone(), 1, -crate_bias(u))]) {
                if let Ok(c) = serde_cbor::value::from_value::<anything::Compound>(cb) {
                    m.insert(u.key(), (c.display(false).to_string(), c.display(true).to_string()));
                }
            }
        }
        m
    })
}

fn crate_bias(u: &crate::units_ref::UnitDef) -> i32 {
    // the stored prefix of a kilogram entry is relative to kg: the word `g` is stored as -3
    if u.base_unit.as_deref() == Some("KiloGram") {
        3
    } else {
        0
    }
}

fn prefix_symbol(exp: i32) -> Option<&'static str> {
    Some(match exp {
        24 => "Y",
        21 => "Z",
        18 => "E",
        15 => "P",
        12 => "T",
        9 => "G",
        6 => "M",
        3 => "k",
        2 => "h",
        1 => "da",
        0 => "",
        -1 => "d",
        -2 => "c",
        -3 => "m",
        -6 => "μ",
        -9 => "n",
        -12 => "p",
        -15 => "f",
        -18 => "a",
        -21 => "z",
        -24 => "y",
        _ => return None,
    })
}

fn superscript(n: u32) -> String {
    const D: [char; 10] = ['⁰', '¹', '²', '³', '⁴', '⁵', '⁶', '⁷', '⁸', '⁹'];
    n.to_string().chars().map(|c| D[c.to_digit(10).unwrap() as usize]).collect()
}

/// Independent rendering of a unit: numerator units joined by `⋅`, `/`,
/// denominator units; SI prefix symbol, name, superscript power; the name is
/// pluralised only when asked and only for a lone numerator unit.  None when a
/// prefix has no SI symbol (display detail outside the statement).
pub fn unit_text_model(m: &crate::tool::Mirror, pluralize: bool) -> Option<String> {
    use crate::tool::UKey;
    let names = unit_names();
    // the library keeps units in the order of its `Unit` enum: derived units by id, then the base units
    let base_order = ["KiloGram", "Candela", "Meter", "Second", "Ampere", "Kelvin", "Mole", "Byte"];
    let mut keys: Vec<&UKey> = m.keys().collect();
    keys.sort_by_key(|k| match k {
        UKey::Derived(id) => (0u8, *id as u64),
        UKey::Base(b) => (1u8, base_order.iter().position(|x| x == b).unwrap_or(99) as u64),
    });
    let numer: Vec<&UKey> = keys.iter().copied().filter(|k| m[*k].0 >= 0).collect();
    let denom: Vec<&UKey> = keys.iter().copied().filter(|k| m[*k].0 < 0).collect();
    let lone = numer.len() == 1;
    let item = |k: &UKey, plural: bool| -> Option<String> {
        let (p, pre) = m[k];
        let bias = if *k == UKey::Base("KiloGram".into()) { 3 } else { 0 };
        let mut s = String::from(prefix_symbol(pre + bias)?);
        let (sing, plur) = names.get(k)?;
        s.push_str(if plural { plur } else { sing });
        let a = p.unsigned_abs();
        if a != 1 {
            s.push_str(&superscript(a));
        }
        Some(s)
    };
    let mut out = String::new();
    for (i, k) in numer.iter().enumerate() {
        if i > 0 {
            out.push('⋅');
        }
        out.push_str(&item(k, pluralize && lone)?);
    }
    if !denom.is_empty() {
        out.push('/');
        for (i, k) in denom.iter().enumerate() {
            if i > 0 {
                out.push('⋅');
            }
            out.push_str(&item(k, false)?);
        }
    }
    Some(out)
}

/// Two renderings of a unit agree when they name the same factors (prefix, name, power, plural form) on the same
/// side of the bar.  The order of the factors and the character that separates them are the library's choice
/// (the properties do not fix them), so the comparison is by the multiset of factors per side.
fn same_unit_text(a: &str, b: &str) -> bool {
    fn sides(t: &str) -> (Vec<String>, Vec<String>) {
        let (n, d) = match t.split_once('/') {
            Some((n, d)) => (n, d),
            None => (t, ""),
        };
        let split = |x: &str| {
            let mut v: Vec<String> = x.split(|c| c == '⋅' || c == '·' || c == '*' || c == ' ').filter(|f| !f.is_empty()).map(|f| f.to_string()).collect();
            v.sort();
            v
        };
        (split(n), split(d))
    }
    sides(a) == sides(b)
}

/// Expected stdout, built from library results with the harness's own printing.
fn expected_stdout(db: &Db, query: &str, exact: bool) -> Result<(String, Vec<&'static str>, bool), String> {
    guarded(query, || {
        let mut out: Vec<u8> = Vec::new();
        let mut classes: Vec<&'static str> = vec![];
        let mut files = SimpleFiles::new();
        let id = files.add("<in>", query.to_string());
        let config = term::Config::default();
        let parsed = match anything::parse(query) {
            Ok(p) => p,
            Err(_) => return (String::new(), vec!["parse-failed"], false),
        };
        let mut descs = Vec::new();
        let mut n = 0;
        let mut faithful = true;
        let mut unit_mismatch: Option<(String, String)> = None;
        for r in anything::query(&parsed, db, Options::default(), &mut descs) {
            n += 1;
            match r {
                Ok(v) => {
                    if exact {
                        // "the reduced numerator, a slash and denominator": what is printed must be in lowest terms, sign in the numerator
                        if !crate::tool::is_canonical(&v.value) {
                            classes.push("EXACT-NOT-REDUCED");
                        }
                        if v.value.denom().is_one() {
                            write!(out, "{}", v.value.numer()).unwrap();
                        } else {
                            write!(out, "{}/{}", v.value.numer(), v.value.denom()).unwrap();
                        }
                    } else {
                        let mut spec = DisplaySpec::default();
                        spec.limit = 12;
                        spec.exponent_limit = 12;
                        spec.show_continuation = true;
                        let text = v.value.display(&spec).to_string();
                        // "the decimal rendering with twelve digits": must obey C08's oracle at limit 12
                        let x = crate::tool::to_big(&v.value);
                        match parse_printed(&text) {
                            Some(p) => {
                                let ax = x.abs();
                                let ap = p.abs_value();
                                if p.neg != x.is_negative() || ap > ax || ax >= &ap + p.ulp() || (p.mark != (ax != ap)) {
                                    faithful = false;
                                }
                            }
                            None => faithful = false,
                        }
                        out.extend_from_slice(text.as_bytes());
                    }
                    let m = crate::tool::mirror(&v.unit);
                    let has_num = m.values().any(|(p, _)| *p > 0);
                    if has_num {
                        out.push(b' ');
                        classes.push("unit-with-numerator");
                    } else if !m.is_empty() {
                        classes.push("denominator-only-unit");
                    }
                    let one = v.value.numer().is_one() && v.value.denom().is_one();
                    let unit = v.unit.display(!one).to_string();
                    // the unit text itself, against the harness's own rendering
                    if let Some(model) = unit_text_model(&m, !one) {
                        classes.push("unit-text-modelled");
                        if !same_unit_text(&model, &unit) {
                            unit_mismatch = Some((unit.clone(), model));
                        }
                    }
                    if unit != v.unit.display(false).to_string() {
                        classes.push("pluralised");
                    }
                    if one && !m.is_empty() {
                        classes.push("value-is-one");
                    }
                    out.extend_from_slice(unit.as_bytes());
                    out.push(b'\n');
                }
                Err(e) => {
                    classes.push("error-block");
                    let labels = vec![Label::primary(id, e.range()).with_message(e.to_string())];
                    let diagnostic = Diagnostic::error().with_message(e.to_string()).with_labels(labels);
                    let mut w = NoColor::new(&mut out);
                    term::emit(&mut w, &config, &files, &diagnostic).unwrap();
                }
            }
        }
        if n >= 2 {
            classes.push("multi-result");
        }
        if let Some((got, model)) = unit_mismatch {
            // reported through the `faithful` channel with a marker
            classes.push("UNIT-MISMATCH");
            return (format!("{}\u{0}{}", got, model), classes, faithful);
        }
        (String::from_utf8_lossy(&out).to_string(), classes, faithful)
    })
}

fn check(c: &CliCase) -> CaseReport {
    let e = env();
    let q = &c.query;
    if q.contains('\0') {
        return CaseReport::discard(q, "NUL cannot be passed as an argument");
    }
    let mut all_classes = vec![];
    let mut nontrivial = false;
    for exact in [false, true] {
        let (want, classes, faithful) = match expected_stdout(cli_db(), q, exact) {
            Ok(x) => x,
            Err(_) => return CaseReport::discard(q, "library panics (C11's finding, not judged here)"),
        };
        if !faithful {
            return CaseReport::fail(q, "default-rendering-not-faithful", json!({"query": q, "expected_stdout": want}));
        }
        if classes.contains(&"EXACT-NOT-REDUCED") {
            return CaseReport::fail(q, "exact:fraction-not-reduced", json!({"query": q, "exact_stdout_would_be": want}));
        }
        if classes.contains(&"UNIT-MISMATCH") {
            let (got, model) = want.split_once('\u{0}').unwrap_or((&want, ""));
            return CaseReport::fail(q, "unit-text-differs-from-independent-rendering", json!({"query": q, "library_unit_text": got, "independent_rendering": model}));
        }
        let mut cmd = Command::new(&e.any);
        cmd.env("XDG_DATA_HOME", &e.xdg).env("TERM", "dumb").env("NO_COLOR", "1").env_remove("RUST_LOG").env_remove("RUST_BACKTRACE");
        if exact {
            cmd.arg("--exact");
        }
        cmd.arg("--").arg(q);
        watch_begin(q);
        let outp = cmd.output();
        watch_end();
        let outp = match outp {
            Ok(o) => o,
            Err(err) => return CaseReport::fail(q, "cannot-run-binary", json!({"error": err.to_string(), "binary": e.any.display().to_string()})),
        };
        let got = String::from_utf8_lossy(&outp.stdout).to_string();
        let stderr = String::from_utf8_lossy(&outp.stderr).to_string();
        let mode = if exact { "exact" } else { "default" };
        if !outp.status.success() {
            return CaseReport::fail(q, format!("{}:exit-status", mode), json!({"query": q, "status": format!("{:?}", outp.status), "stderr": stderr, "stdout": got}));
        }
        if got != want {
            return CaseReport::fail(q, format!("{}:stdout-differs", mode), json!({"query": q, "mode": mode, "stdout": got, "expected": want, "stderr": stderr}));
        }
        if stderr.contains("panicked") {
            return CaseReport::fail(q, format!("{}:panic-on-stderr", mode), json!({"query": q, "stderr": stderr}));
        }
        if classes.iter().any(|c| ["unit-with-numerator", "multi-result", "error-block", "denominator-only-unit"].contains(c)) {
            nontrivial = true;
        }
        for cl in classes {
            if !all_classes.contains(&cl) {
                all_classes.push(cl);
            }
        }
    }
    // the printed text is a function of the query and the options, not of the locale variables of the environment
    // nor of the log level (log output goes to stderr)
    if q.len() % 5 == 0 {
        if let Ok((want, _, _)) = expected_stdout(cli_db(), q, false) {
            const LOCALES: [(&str, &str); 7] = [("LC_ALL", "en_US.ISO-8859-1"), ("LC_ALL", "C"), ("LANG", "de_DE.ISO-8859-15@euro"), ("RUST_LOG", "trace"), ("LC_CTYPE", "ja_JP.eucJP"), ("LC_ALL", "POSIX"), ("RUST_LOG", "anything=trace")];
            let (k, v) = LOCALES[(q.len() / 5) % LOCALES.len()];
            let mut cmd = Command::new(&e.any);
            cmd.env("XDG_DATA_HOME", &e.xdg).env("TERM", "dumb").env("NO_COLOR", "1").env_remove("RUST_LOG").env_remove("RUST_BACKTRACE");
            cmd.env_remove("LC_ALL").env_remove("LC_CTYPE").env_remove("LANG").env(k, v);
            cmd.arg("--").arg(q);
            watch_begin(q);
            let outp = cmd.output();
            watch_end();
            if let Ok(outp) = outp {
                let got = String::from_utf8_lossy(&outp.stdout).to_string();
                if !outp.status.success() || got != want {
                    return CaseReport::fail(q, if k == "RUST_LOG" { "log-level:stdout-differs" } else { "locale:stdout-differs" }, json!({"query": q, "environment": format!("{}={}", k, v), "stdout": got, "expected": want}));
                }
                all_classes.push("under-another-locale");
            }
        }
    }
    // the query given as several arguments (`any 1 + 2`): the program joins them with single blanks, so a
    // query whose words are separated by exactly one blank must print the same either way
    {
        let pieces: Vec<&str> = q.split(' ').collect();
        if pieces.len() >= 2 && pieces.iter().all(|p| !p.is_empty()) && q.len() % 4 == 0 {
            if let Ok((want, _, _)) = expected_stdout(cli_db(), q, false) {
                let mut cmd = Command::new(&e.any);
                cmd.env("XDG_DATA_HOME", &e.xdg).env("TERM", "dumb").env("NO_COLOR", "1").env_remove("RUST_LOG").env_remove("RUST_BACKTRACE");
                cmd.arg("--");
                for p in &pieces {
                    cmd.arg(p);
                }
                watch_begin(q);
                let outp = cmd.output();
                watch_end();
                if let Ok(outp) = outp {
                    let got = String::from_utf8_lossy(&outp.stdout).to_string();
                    if !outp.status.success() || got != want {
                        return CaseReport::fail(q, "split-arguments:stdout-differs", json!({"query": q, "arguments": pieces, "stdout": got, "expected": want, "status": format!("{:?}", outp.status)}));
                    }
                    all_classes.push("query-as-several-arguments");
                }
            }
        }
    }
    // --describe: the default-mode lines, then (iff the library recorded descriptions) a header and one
    // line per description, in the library's order, each starting with the quoted phrase and the constant's text
    let lib = crate::tool::run_full(cli_db(), q, true);
    if let Ok(lib) = lib {
        if !lib.descs.is_empty() {
            // every other query combines --describe with --exact
            let with_exact = q.len() % 2 == 1;
            let (want_default, _, _) = match expected_stdout(cli_db(), q, with_exact) {
                Ok(x) => x,
                Err(_) => return CaseReport::pass(q, nontrivial, all_classes),
            };
            let mut cmd = Command::new(&e.any);
            cmd.env("XDG_DATA_HOME", &e.xdg).env("TERM", "dumb").env("NO_COLOR", "1").env_remove("RUST_LOG").env_remove("RUST_BACKTRACE");
            cmd.arg("--describe");
            if with_exact {
                cmd.arg("--exact");
            }
            cmd.arg("--").arg(q);
            watch_begin(q);
            let outp = cmd.output();
            watch_end();
            if let Ok(outp) = outp {
                let got = String::from_utf8_lossy(&outp.stdout).to_string();
                let bad = |why: &str| CaseReport::fail(q, format!("describe:{}", why), json!({"query": q, "stdout": got, "expected_value_lines": want_default, "library_descriptions": lib.descs.iter().map(|d| format!("{:?} => {}", d.phrase, d.description)).collect::<Vec<_>>()}));
                if !outp.status.success() {
                    return bad("exit-status");
                }
                let rest = match got.strip_prefix(want_default.as_str()) {
                    Some(r) => r,
                    None => return bad("value-lines-differ-from-default-mode"),
                };
                // descriptions may contain line breaks: walk the block with the expected prefixes in order
                // one heading line of whatever wording (it is not a description: it does not start with a quoted phrase)
                let mut cur = match rest.find('\n') {
                    Some(i) if !rest.starts_with('"') => &rest[i + 1..],
                    _ => rest,
                };
                for d in &lib.descs {
                    let prefix = format!("{:?} => {}", d.phrase, d.description);
                    match cur.find(prefix.as_str()) {
                        Some(0) => {
                            let after = &cur[prefix.len()..];
                            // skip the optional source text up to the end of this line
                            cur = match after.find('\n') {
                                Some(i) => &after[i + 1..],
                                None => "",
                            };
                        }
                        _ => return bad("description-lines-are-not-the-library's-descriptions-in-order"),
                    }
                }
                if !cur.is_empty() {
                    return bad("extra-output-after-descriptions");
                }
                all_classes.push(if with_exact { "describe+exact-mode" } else { "describe-mode" });
            }
        }
    }
    CaseReport::pass(q, nontrivial, all_classes)
}

fn queries() -> impl Strategy<Value = CliCase> {
    let small = TreeCfg { depth: 3, size: 8, max_pow: 3, pow_weight_cap: 16, lit: LitCfg::SMALL, calls: true };
    let plural = (prop_oneof![Just("1"), Just("1.0"), Just("2"), Just("0.5"), Just("0"), Just("-1"), Just("1e0"), Just("100%")], gen::single_unit()).prop_map(|(l, u)| format!("{} {}", l, u.render()));
    let denom = (gen::small_lit(), gen::single_unit(), 1i32..=3).prop_map(|(l, u, p)| format!("{} {}^-{}", l.text, u.factors[0].0.text, p));
    let errors = prop_oneof![
        Just("1 +".to_string()),
        Just(")".to_string()),
        Just("1 m + 1 s".to_string()),
        Just("foo bar".to_string()),
        Just("2 ** 3".to_string()),
        Just("1 / 0".to_string()),
        Just("(1 m + 1 s) (2) (1 / 0) (3 km)".to_string()),
        Just("(NOT speed) (2 m)".to_string()),
        Just("(1) (OR) (2) (zzzzqq xqxq) (3)".to_string()),
        Just("1 kg to m".to_string()),
        Just("round(1, 2, 3)".to_string()),
        Just("nosuchfunction(1)".to_string()),
        Just("1 é 2".to_string()),
        Just("日本 + 1".to_string()),
        Just("".to_string()),
        Just("   ".to_string()),
        Just("1 m^2 / 3 s".to_string()),
        "[ -~]{0,12}".prop_map(|s| s),
    ];
    // several results in a row carrying the same unit, values one and not one next to each other, a failure in between
    let same_unit_run = (gen::single_unit(), prop::collection::vec(prop_oneof![
            3 => Just("1"), 2 => Just("2"), 1 => Just("1.0"), 1 => Just("0.5"), 1 => Just("-1"), 1 => Just("0"), 1 => Just("1e0"), 1 => Just("3 - 2"), 1 => Just("ERR"), 1 => Just("PLAIN"),
        ], 2..=6))
        .prop_map(|(u, vs)| {
            let u = u.render();
            vs.iter()
                .map(|v| match *v {
                    "ERR" => "(1 / 0)".to_string(),
                    "PLAIN" => "(1)".to_string(),
                    "3 - 2" => format!("(3 {} - 2 {})", u, u),
                    v => format!("({} {})", v, u),
                })
                .collect::<Vec<_>>()
                .join(" ")
        });
    // facts only inside the arguments of the rounding functions (never in an exponent or a digits argument: those
    // multiply for ever): the binary must find them as the library does
    let fact_in_call = (any::<u16>(), prop_oneof![Just("round"), Just("floor"), Just("ceil")], 0u8..5, gen::small_lit()).prop_map(|(i, f, form, l)| {
        let p = super::c13::pool();
        let ph = &p.all[pick_idx(i, p.all.len())].0;
        match form {
            0 => format!("{}({})", f, ph),
            1 => format!("32500 / {}({})", f, ph),
            2 => format!("{}(2 * ({}))", f, ph),
            3 => format!("(1 m) ({}({}))", f, ph),
            _ => format!("{}({}) * {}", f, ph, l.text),
        }
    });
    prop_oneof![
        1 => fact_in_call,
        2 => same_unit_run,
        3 => gen::num_expr(small).prop_map(|e| render_canonical(&e)),
        3 => super::c02::pair().prop_map(|p| render_canonical(&super::c02::expr_of(&p))),
        3 => super::c04::tree().prop_map(|e| render_canonical(&e)),
        3 => super::c18::exprs_plain().prop_map(|es| if es.len() == 1 { render_canonical(&es[0]) } else { es.iter().map(|e| format!("({})", render_canonical(e))).collect::<Vec<_>>().join(" ") }),
        2 => plural,
        1 => denom,
        2 => errors,
        // many results in one query, failures anywhere among them
        1 => prop::collection::vec(prop_oneof![
                4 => gen::small_lit().prop_map(|l| l.text),
                2 => (gen::small_lit(), gen::single_unit()).prop_map(|(l, u)| format!("{} {}", l.text, u.render())),
                1 => Just("1 / 0".to_string()),
                1 => Just("1 m + 1 s".to_string()),
                1 => Just("2 ^ 64".to_string()),
                1 => Just("1 / 3".to_string()),
                // failures of every kind the evaluator knows, lookups included: a phrase that is not a well-formed
                // search expression, a phrase that finds nothing, a function that does not exist
                1 => prop_oneof![Just("NOT speed"), Just("OR"), Just("speed OR"), Just("2 * NOT"), Just("AND AND"), Just("zzzzqq xqxq"), Just("2 * nosuchthingever"), Just("nosuch(1)"), Just("round(1, 2, 3)"), Just("1 kg to m"), Just("0 ^ -1"), Just("2 ^ 0.5"), Just("1e99999999999"), Just("speed of light")].prop_map(|s| s.to_string()),
            ], 2..=40).prop_map(|v| v.iter().map(|t| format!("({})", t)).collect::<Vec<_>>().join(" ")),
    ]
    .prop_map(|query| CliCase { query })
}

pub fn run_check(ctx: &Ctx) {
    ctx.set_rule("queries from the other generators (numeric trees, commensurable/incommensurable pairs, quantity products, fact expressions, facts that occur only inside the arguments of round/floor/ceil, multi-result queries, single pluralisable units with value 1 and not 1, runs of two to six results that carry one and the same unit with values one and not one next to each other and failures in between, denominator-only units, error inputs, printable-ASCII noise) are run through the real `any` binary (compiled from /repo/src/bin/any.rs) in default and --exact mode under a private XDG_DATA_HOME; stdout must equal, byte for byte, the text the harness prints from the library's results (numerator[/denominator]; 12-digit rendering that also satisfies C08's oracle; space iff the unit has a numerator; pluralised iff value != 1; codespan diagnostics for errors; later results still printed) and the exit status must be 0; non-trivial = output has a unit, several results or an error block; distinct by query text; one query in five also runs under another locale or with RUST_LOG=trace (stdout must not change)");
    ctx.assume("the binary is compiled from the unmodified source file /repo/src/bin/any.rs as a [[bin]] of the harness crate, linked against the same build of the library");
    let corpus: Vec<(String, CliCase)> = load_corpus("C19");
    let cases: Vec<CliCase> = corpus.into_iter().map(|c| c.1).collect();
    let _ = env();
    ctx.run_list("corpus", &cases, check, |c| to_json(c));
    let n = ctx.tier.pick(10_000u64, 200_000);
    ctx.run_gen("generated", queries, n, check, |c| to_json(c));
    cleanup();
    let _ = (Expr::num(0), Lit::int(0));
}

pub fn replay(ctx: &Ctx, case: &Value) {
    let c: CliCase = serde_json::from_value(case.clone()).expect("replay file holds {query}");
    ctx.run_list("replay", &[c], check, |c| to_json(c));
    cleanup();
}
