//! Shared case format and judging: a case is the exact query text plus the
//! oracle's expectation, so a replay bypasses every generator.

use crate::ast::{eval_ref, Env, Expr, Q, RefErr, UState};
use crate::runner::CaseReport;
use crate::tool::{run, Mirror, UKey, Val, R};
use crate::units_ref::{dim_spelling, mirror_dim, mirror_scale, scale_table, vocab, Dim, ScaleTable};
use anything::Db;
use num::{BigRational, One};
use serde::{Deserialize, Serialize};
use serde_json::{json, Value};
use std::collections::{BTreeMap, HashSet};
use std::sync::{Mutex, OnceLock};

pub fn intern(s: &str) -> &'static str {
    static I: OnceLock<Mutex<HashSet<&'static str>>> = OnceLock::new();
    let mut g = I.get_or_init(|| Mutex::new(HashSet::new())).lock().unwrap();
    if let Some(x) = g.get(s) {
        return x;
    }
    let l: &'static str = Box::leak(s.to_string().into_boxed_str());
    g.insert(l);
    l
}

#[derive(Clone, Debug, Serialize, Deserialize, PartialEq)]
#[serde(tag = "kind", rename_all = "snake_case")]
pub enum Expect {
    /// One Ok result, empty unit, exactly this value ("n/d").
    Plain { value: String },
    /// One Ok result whose SI value and base dimensions are these.
    Quantity { si: String, dim: Dim },
    /// As Quantity, and the displayed unit must be exactly this mirror.
    QuantityIn { si: String, dim: Dim, unit: Vec<(String, i32, i32)> },
    /// One Err result (any message), never a number.
    Error { why: String },
    /// Two root expressions in one query, each with its own expectation (reproduction of a failure
    /// that only shows when one query holds both).
    Pair { first: Box<Expect>, second: Box<Expect> },
}

#[derive(Clone, Debug, Serialize, Deserialize)]
pub struct QCase {
    pub query: String,
    pub expect: Expect,
    #[serde(default)]
    pub nontrivial: bool,
    #[serde(default)]
    pub classes: Vec<String>,
}

pub fn ukey_text(k: &UKey) -> String {
    match k {
        UKey::Base(b) => b.clone(),
        UKey::Derived(id) => vocab().by_key(k).map(|u| u.variant.clone()).unwrap_or_else(|| format!("#{}", id)),
    }
}

pub fn mirror_json(m: &Mirror) -> Vec<(String, i32, i32)> {
    m.iter().map(|(k, (p, pre))| (ukey_text(k), *p, *pre)).collect()
}

pub fn rat(s: &BigRational) -> String {
    s.to_string()
}

pub fn parse_rat(s: &str) -> BigRational {
    match s.split_once('/') {
        Some((a, b)) => BigRational::new(a.parse().unwrap(), b.parse().unwrap()),
        None => BigRational::from_integer(s.parse().unwrap()),
    }
}

/// Expectation for a reference result.
pub fn expect_of(r: &Result<Q, RefErr>, cast_unit: Option<&Mirror>) -> Option<Expect> {
    match r {
        Ok(q) => Some(match (&q.unit, cast_unit) {
            (UState::Plain, _) => Expect::Plain { value: rat(&q.si) },
            (_, Some(m)) => Expect::QuantityIn { si: rat(&q.si), dim: q.dim, unit: mirror_json(m) },
            _ => Expect::Quantity { si: rat(&q.si), dim: q.dim },
        }),
        Err(RefErr::Unspecified(_)) => None,
        Err(e) => Some(Expect::Error { why: format!("{:?}", e) }),
    }
}

// ----------------------------------------------------------- observed scales

pub struct Observed {
    pub table: ScaleTable,
    pub failed: Vec<String>,
}

/// The tool's own per-unit factor, observed once with single-unit casts
/// `1 <name> to <SI base expression>` (DESIGN 3.3).  Falls back to the first
/// reference scale when an observation fails (recorded).
pub fn observed() -> &'static Observed {
    static O: OnceLock<Observed> = OnceLock::new();
    O.get_or_init(|| {
        let db = crate::tool::shared_db();
        let mut failed = Vec::new();
        let table = scale_table(|u| {
            if u.offset {
                return Some(u.scales[0].clone());
            }
            let q = format!("1 {} to {}", u.probe, dim_spelling(&u.dim));
            match run(db, &q) {
                Ok(v) if v.len() == 1 => match &v[0] {
                    R::Ok(val) => Some(val.value.clone()),
                    _ => {
                        failed.push(u.variant.clone());
                        Some(u.scales[0].clone())
                    }
                },
                _ => {
                    failed.push(u.variant.clone());
                    Some(u.scales[0].clone())
                }
            }
        });
        Observed { table, failed }
    })
}

pub struct ObsEnv;
impl Env for ObsEnv {
    fn scales(&self) -> &ScaleTable {
        &observed().table
    }
}

/// Reference table: first accepted scale of each unit.
pub fn reference_scales() -> &'static ScaleTable {
    static T: OnceLock<ScaleTable> = OnceLock::new();
    T.get_or_init(|| scale_table(|u| Some(u.scales[0].clone())))
}

/// (SI value, dimension) of a tool value, via the mirror and own arithmetic.
pub fn si_of(v: &Val, table: &ScaleTable) -> Option<(BigRational, Dim)> {
    let dim = mirror_dim(&v.unit)?;
    let s = mirror_scale(&v.unit, table)?;
    Some((&v.value * &s, dim))
}

pub fn has_zero_power(m: &Mirror) -> bool {
    m.values().any(|(p, _)| *p == 0)
}

// ------------------------------------------------------------------- judging

pub fn results_json(rs: &[R]) -> Value {
    json!(rs.iter().map(|r| r.brief()).collect::<Vec<_>>())
}

pub fn classes_of(c: &QCase) -> Vec<&'static str> {
    c.classes.iter().map(|s| intern(s)).collect()
}

/// Inputs the tool refuses or fails on in different ways; evaluated (result ignored) in front of one case in
/// eight, on the same thread and database, so that state left behind by a failed or unusual evaluation
/// (a scratch buffer, a cache, a counter) shows up as a wrong answer to the case that follows.
pub const PRECEDING_INPUTS: [&str; 12] = ["1e99999999999", "12x", "1 / 0", "(", "1 m + 1 s", "round(1, 2, 3)", "nosuch(1)", "1 kg to m", "0 ^ -1", "1e", "((((1", "50% 50 1.50%"];

fn fnv(s: &str) -> u64 {
    let mut h: u64 = 0xcbf29ce484222325;
    for b in s.bytes() {
        h ^= b as u64;
        h = h.wrapping_mul(0x100000001b3);
    }
    h
}

/// Judge one case against the tool. `sigp` prefixes failure signatures.
pub fn judge(db: &Db, c: &QCase) -> CaseReport {
    let mut classes = classes_of(c);
    let h = fnv(&c.query);
    if h % 8 == 0 {
        let pre = PRECEDING_INPUTS[((h >> 8) % PRECEDING_INPUTS.len() as u64) as usize];
        let _ = run(db, pre);
        let _ = crate::runner::guarded(pre, || pre.parse::<anything::Rational>().is_ok());
        let _ = crate::runner::guarded(pre, || pre.parse::<anything::Compound>().is_ok());
        classes.push("after-a-failing-evaluation");
    }
    // one case in eight is evaluated with the describe option on: an option that concerns looked-up
    // constants must not change how anything else is evaluated
    let described = h % 8 == 1;
    if described {
        classes.push("evaluated-with-descriptions-on");
    }
    let rs = match if described { crate::tool::run_full(db, &c.query, true).map(|r| r.results) } else { run(db, &c.query) } {
        Ok(r) => r,
        Err(p) => {
            return CaseReport::fail(&c.query, format!("panic:{}", panic_site(&p)), json!({"query": c.query, "panic": p}));
        }
    };
    let fail = |sig: &str, why: &str| CaseReport::fail(&c.query, sig, json!({"query": c.query, "expected": c.expect, "got": results_json(&rs), "why": why}));
    if let Expect::Pair { first, second } = &c.expect {
        if rs.len() != 2 {
            return fail("in-one-query-with-another:result-count", "expected two results");
        }
        for (exp, r) in [(first, &rs[0]), (second, &rs[1])] {
            if let Some((sig, why)) = judge_one(exp, r) {
                return fail(&format!("in-one-query-with-another:{}", sig), &why);
            }
        }
        return CaseReport::pass(&c.query, true, classes);
    }
    if rs.len() != 1 {
        return fail("result-count", "expected exactly one result");
    }
    if let Some((sig, why)) = judge_one(&c.expect, &rs[0]) {
        return fail(&sig, &why);
    }
    // one case in eight is evaluated once more in ONE query together with the previous case of this thread
    // (`(previous) (this)`): what a query keeps between its root expressions (caches, scratch state) must not
    // make either answer differ from the one it has alone
    if h % 8 == 2 {
        let prev = PREVIOUS.with(|p| p.borrow().clone());
        if let Some(prev) = prev {
            let q2 = format!("({}) ({})", prev.query, c.query);
            match run(db, &q2) {
                Err(p) => return CaseReport::fail(&c.query, format!("panic:{}", panic_site(&p)), json!({"query": q2, "panic": p})),
                Ok(two) => {
                    if two.len() != 2 {
                        let rc = QCase { query: q2.clone(), expect: Expect::Pair { first: Box::new(prev.expect.clone()), second: Box::new(c.expect.clone()) }, nontrivial: true, classes: vec![] };
                        return CaseReport::fail(&c.query, "in-one-query-with-another:result-count", json!({"query": q2, "got": results_json(&two), "replay_case": rc}));
                    }
                    for (i, (exp, r)) in [(&prev.expect, &two[0]), (&c.expect, &two[1])].into_iter().enumerate() {
                        if let Some((sig, why)) = judge_one(exp, r) {
                            let rc = QCase { query: q2.clone(), expect: Expect::Pair { first: Box::new(prev.expect.clone()), second: Box::new(c.expect.clone()) }, nontrivial: true, classes: vec![] };
                            return CaseReport::fail(&c.query, format!("in-one-query-with-another:{}", sig), json!({"query": q2, "result": i, "expected": exp, "got": results_json(&two), "why": why, "replay_case": rc}));
                        }
                    }
                    classes.push("also-in-one-query-with-the-previous-case");
                }
            }
        }
    }
    PREVIOUS.with(|p| *p.borrow_mut() = Some(c.clone()));
    CaseReport::pass(&c.query, c.nontrivial, classes)
}

thread_local! {
    static PREVIOUS: std::cell::RefCell<Option<QCase>> = std::cell::RefCell::new(None);
}

/// One result against one expectation; Some((signature, why)) on a mismatch.
pub fn judge_one(expect: &Expect, r: &R) -> Option<(String, String)> {
    let bad = |sig: &str, why: &str| Some((sig.to_string(), why.to_string()));
    match (expect, r) {
        (Expect::Pair { .. }, _) => bad("malformed-case", "a pair expectation inside a pair"),
        (Expect::Error { .. }, R::Err { .. }) => None,
        (Expect::Error { .. }, R::Ok(_)) => bad("number-instead-of-error", "the reference reports an error, the tool returned a number"),
        (_, R::Err { .. }) => bad("error-instead-of-value", "the reference has a value, the tool reported an error"),
        (Expect::Plain { value }, R::Ok(v)) => {
            if !v.unit.is_empty() {
                return bad("unit-on-plain-number", "a plain number came back with a unit");
            }
            if v.value != parse_rat(value) {
                return bad("wrong-value", "value differs from exact arithmetic");
            }
            None
        }
        (Expect::Quantity { si, dim }, R::Ok(v)) | (Expect::QuantityIn { si, dim, .. }, R::Ok(v)) => {
            if has_zero_power(&v.unit) {
                return bad("zero-power-entry", "result unit keeps an entry with power 0");
            }
            let (tsi, tdim) = match si_of(v, &observed().table) {
                Some(x) => x,
                None => return bad("unknown-unit-in-result", "result mentions a unit outside the vocabulary"),
            };
            if tdim != *dim {
                return bad("wrong-dimension", &format!("dimension {:?} != expected {:?}", tdim, dim));
            }
            if tsi != parse_rat(si) {
                return bad("wrong-si-value", &format!("SI value {} != expected {}", tsi, si));
            }
            if let Expect::QuantityIn { unit, .. } = expect {
                if mirror_json(&v.unit) != *unit {
                    return bad("wrong-display-unit", "result is not expressed in the requested unit");
                }
            }
            None
        }
    }
}

/// Normalised panic site for signatures: message without numbers + file:line.
pub fn panic_site(p: &str) -> String {
    let at = p.rsplit(" at ").next().unwrap_or("");
    let file = at.rsplit('/').next().unwrap_or(at);
    let head: String = p.chars().take(40).filter(|c| !c.is_ascii_digit()).collect();
    format!("{}@{}", head.trim(), file)
}

pub fn to_json<T: Serialize>(t: &T) -> Value {
    serde_json::to_value(t).unwrap()
}

/// Build a QCase from an expression (canonical layout) and the reference.
pub fn case_from_expr(e: &Expr, env: &dyn Env, nontrivial: bool, classes: Vec<&str>) -> Option<QCase> {
    let r = eval_ref(e, env);
    let cast_unit = match e {
        Expr::Cast(_, u) => Some(u.mirror()),
        _ => None,
    };
    let expect = expect_of(&r, cast_unit.as_ref())?;
    Some(QCase { query: crate::ast::render_canonical(e), expect, nontrivial, classes: classes.into_iter().map(|s| s.to_string()).collect() })
}

/// Load corpus cases `corpus/<ID>/*.json` (each file: one case or a list).
pub fn load_corpus<T: for<'de> Deserialize<'de>>(prop: &str) -> Vec<(String, T)> {
    let dir = format!("{}/corpus/{}", crate::runner::verif_root(), prop);
    let mut out = Vec::new();
    let mut names: Vec<_> = match std::fs::read_dir(&dir) {
        Ok(rd) => rd.filter_map(|e| e.ok()).map(|e| e.path()).filter(|p| p.extension().map(|x| x == "json").unwrap_or(false)).collect(),
        Err(_) => return out,
    };
    names.sort();
    for p in names {
        let text = match std::fs::read_to_string(&p) {
            Ok(t) => t,
            Err(_) => continue,
        };
        let v: Value = match serde_json::from_str(&text) {
            Ok(v) => v,
            Err(e) => {
                println!("INCONCLUSIVE corpus file {} does not parse: {}", p.display(), e);
                std::process::exit(2);
            }
        };
        // a replay file wraps the case
        let v = if v.get("case").is_some() && v.get("property").is_some() { v["case"].clone() } else { v };
        let items = match v {
            Value::Array(a) => a,
            other => vec![other],
        };
        for (i, it) in items.into_iter().enumerate() {
            match serde_json::from_value::<T>(it) {
                Ok(c) => out.push((format!("{}#{}", p.file_name().unwrap().to_string_lossy(), i), c)),
                Err(e) => {
                    println!("INCONCLUSIVE corpus file {} item {}: {}", p.display(), i, e);
                    std::process::exit(2);
                }
            }
        }
    }
    out
}

pub fn unit_one() -> BigRational {
    BigRational::one()
}

pub type Hist = BTreeMap<String, u64>;
