//! C10 Rounding functions return the mathematically defined integer or decimal.

use super::common::*;
use crate::ast::{Expr, Lit, Op, USpell};
use crate::gen::{self, LitCfg};
use crate::runner::{CaseReport, Ctx};
use crate::tool::shared_db;
use num::{BigRational, Signed};
use proptest::prelude::*;
use serde_json::Value;

#[derive(Clone, Debug)]
struct RCase {
    func: &'static str,
    /// argument as written
    arg: Expr,
    unit: Option<USpell>,
    digits: Option<i32>,
    /// extra arguments to provoke an arity error (0 = none)
    extra: usize,
    /// call with no argument at all
    empty: bool,
    /// how the digits argument is written: 0 literal, 1 `floor(n.5)`, 2 `ceil(n - 0.5)`, 3 `round(n)`, 4 `(n + 0)`
    digits_form: u8,
    /// wrap the whole call: 0 no, 1 `floor(call)`, 2 `round(call, 1)`, 3 `ceil(call) - floor(call)`
    outer: u8,
}

fn expr_of(c: &RCase) -> Expr {
    if c.empty {
        return Expr::Call(c.func, vec![]);
    }
    let x = match (&c.arg, &c.unit) {
        (Expr::Num(l), Some(u)) => Expr::Qty(l.clone(), u.clone()),
        (other, _) => other.clone(),
    };
    let mut args = vec![x];
    if let Some(d) = c.digits {
        // the digits argument may itself be a call or an expression (arguments are evaluated one after
        // the other; a nested call must not disturb the arguments already evaluated)
        let lit = |t: String| Expr::Num(Lit::from_text(&t));
        args.push(match c.digits_form {
            1 => Expr::Call("floor", vec![lit(format!("{}.5", d))]),
            2 => Expr::Call("ceil", vec![Expr::bin(Op::Sub, Expr::num(d as i64), lit("0.5".into()))]),
            3 => Expr::Call("round", vec![Expr::num(d as i64)]),
            4 => Expr::Paren(Box::new(Expr::bin(Op::Add, Expr::num(d as i64), Expr::num(0)))),
            _ => Expr::num(d as i64),
        });
    }
    for i in 0..c.extra {
        args.push(if c.digits_form % 2 == 1 { Expr::Call("ceil", vec![Expr::num(i as i64)]) } else { Expr::num(i as i64) });
    }
    let call = Expr::Call(c.func, args);
    match c.outer {
        1 => Expr::Call("floor", vec![call]),
        2 => Expr::Call("round", vec![call, Expr::num(1)]),
        3 => Expr::bin(Op::Sub, Expr::Call("ceil", vec![call.clone()]), Expr::Call("floor", vec![call])),
        _ => call,
    }
}

fn arg_value(c: &RCase) -> Option<BigRational> {
    match &c.arg {
        Expr::Num(l) => Some(l.value.clone()),
        Expr::Paren(inner) => match &**inner {
            Expr::Bin(Op::Div, a, b) => match (&**a, &**b) {
                (Expr::Num(p), Expr::Num(q)) => Some(&p.value / &q.value),
                _ => None,
            },
            _ => None,
        },
        _ => None,
    }
}

fn make_case(c: &RCase) -> Option<QCase> {
    let e = expr_of(c);
    let mut classes: Vec<&str> = vec![c.func];
    let mut nt = false;
    if let Some(v) = arg_value(c) {
        let two = BigRational::from_integer(2.into());
        if v.is_negative() && !v.is_integer() {
            classes.push("negative-non-integer");
            nt = true;
        }
        if (&v * &two).is_integer() && !v.is_integer() {
            classes.push("exact-half");
            nt = true;
        }
        if v.is_integer() {
            classes.push("exact-integer");
        }
    }
    if let Some(d) = c.digits {
        if d != 0 {
            classes.push("digits!=0");
            nt = true;
        }
        if d < 0 {
            classes.push("negative-digits");
        }
    }
    if c.unit.is_some() {
        classes.push("with-unit");
    }
    if c.digits.is_some() && c.digits_form != 0 {
        classes.push("digits-argument-is-an-expression");
        nt = true;
    }
    if c.outer != 0 {
        classes.push("nested-in-another-call");
    }
    if let Expr::Num(l) = &c.arg {
        if l.text.trim_start_matches('-').len() >= 16 {
            classes.push("machine-word-boundary");
            nt = true;
        }
    }
    if c.extra > 0 || c.empty || (c.digits.is_some() && c.func != "round") {
        classes.push("wrong-arity");
        nt = true;
    }
    // a rounded quantity must come back in the argument's own unit
    let r = crate::ast::eval_ref(&e, &ObsEnv);
    let unit_mirror = if c.outer == 3 { None } else { c.unit.as_ref().map(|u| u.mirror()) };
    let expect = expect_of(&r, unit_mirror.as_ref())?;
    Some(QCase { query: crate::ast::render_canonical(&e), expect, nontrivial: nt, classes: classes.into_iter().map(|s| s.to_string()).collect() })
}

/// x values: integers, exact halves, k ± 10^-j around integer and half boundaries, random rationals.
fn arg() -> impl Strategy<Value = Expr> {
    // k (+ 0.5) + d * 10^-(j+1) written as a decimal literal: one unit in the last place next to an integer or a
    // half, with up to 40 decimal places and integer parts up to 10^17 (far beyond what a float can tell apart)
    let boundary = (prop_oneof![4 => -50i64..=50, 1 => Just(5_000_000_000_000_000i64), 1 => Just(-9_007_199_254_740_993i64), 1 => Just(99_999_999_999_999_999i64)], prop_oneof![3 => 0u32..=6, 2 => 7u32..=40], prop_oneof![Just(0i64), Just(1), Just(-1)], any::<bool>()).prop_map(|(k, j, d, half)| {
        use num::{BigInt, Signed};
        let scale = num::pow(BigInt::from(10), j as usize);
        let ten = BigInt::from(10);
        let mut n = BigInt::from(k) * &scale * &ten + if half { BigInt::from(5) * &scale } else { BigInt::from(0) };
        n += BigInt::from(d); // one unit in the (j+1)-th decimal place
        let neg = n.is_negative();
        let a = n.abs();
        let unit = &scale * &ten;
        let ip = &a / &unit;
        let fp = &a % &unit;
        let text = format!("{}{}.{:0>width$}", if neg { "-" } else { "" }, ip, fp.to_string(), width = (j + 1) as usize);
        Expr::Num(Lit::from_text(&text))
    });
    let frac = (-2000i64..=2000, 1i64..=64).prop_map(|(p, q)| Expr::Paren(Box::new(Expr::bin(Op::Div, Expr::num(p), Expr::num(q)))));
    // values next to the boundaries of machine words: (2^k + j) with the decimal point moved p places
    let word = (prop_oneof![Just(15u32), Just(16), Just(31), Just(32), Just(53), Just(63), Just(64), Just(127), Just(128)], -3i64..=3, 0usize..=3, any::<bool>()).prop_map(|(k, j, p, neg)| {
        let n = (num::BigInt::from(1) << k as usize) + num::BigInt::from(j);
        let mut t = n.to_string();
        if p > 0 && t.len() > p {
            t.insert(t.len() - p, '.');
        }
        Expr::Num(Lit::from_text(&format!("{}{}", if neg { "-" } else { "" }, t)))
    });
    prop_oneof![
        4 => boundary,
        2 => word,
        2 => (-1000i64..=1000).prop_map(Expr::num),
        2 => (-1000i64..=1000).prop_map(|k| Expr::Num(Lit::from_text(&format!("{}.5", k)))),
        3 => gen::lit(LitCfg { max_int_digits: 8, max_frac_digits: 8, max_exp: 4, allow_percent: false, allow_neg: true, allow_plus: false, allow_exotic: true }).prop_map(Expr::Num),
        3 => frac,
    ]
}

fn rcase() -> impl Strategy<Value = RCase> {
    (
        prop_oneof![1 => Just("floor"), 1 => Just("ceil"), 2 => Just("round")],
        arg(),
        prop::option::weighted(0.3, gen::single_unit()),
        prop::option::weighted(0.5, -6i32..=6),
        prop_oneof![12 => Just(0usize), 1 => Just(1usize), 1 => Just(2usize)],
        prop::bool::weighted(0.03),
        prop_oneof![3 => Just(0u8), 1 => 1u8..=4],
        prop_oneof![5 => Just(0u8), 1 => 1u8..=3],
    )
        .prop_map(|(func, arg, unit, digits, extra, empty, digits_form, outer)| {
            // digits only make sense for round; for floor/ceil keep them rarely (arity error)
            let digits = if func == "round" { digits } else { digits.filter(|d| d % 5 == 0) };
            // a unit can only be attached to a literal argument
            let unit = if matches!(arg, Expr::Num(_)) { unit } else { None };
            RCase { func, arg, unit, digits, extra, empty, digits_form, outer }
        })
}

pub fn run_check(ctx: &Ctx) {
    ctx.set_rule("floor/ceil/round/round(x, n) over integers, exact halves, values one unit in the last place (up to 40 decimal places, integer parts up to 10^17) around integer and half boundaries, random decimals and fractions (p / q), values next to machine-word boundaries ((2^k + j) / 10^p for k in 15..128), with and without a unit, digits -6..6 written as a literal or as a nested call / expression, calls nested in other calls, arities 0..4; oracle = mathematical definitions (div_floor; round = sign*floor(|x|+1/2)) on exact rationals; the result must be in the argument's unit; wrong arity must be an error; non-trivial = negative non-integer, exact half, digits != 0 or arity error; distinct by query text");
    let corpus: Vec<(String, QCase)> = load_corpus("C10");
    let cases: Vec<QCase> = corpus.into_iter().map(|c| c.1).collect();
    ctx.run_list("corpus", &cases, |c| judge(shared_db(), c), |c| to_json(c));
    let n = ctx.tier.pick(300_000u64, 5_000_000);
    ctx.run_gen(
        "generated",
        rcase,
        n,
        |c| match make_case(c) {
            Some(q) => judge(shared_db(), &q),
            None => CaseReport::discard("", "reference-unspecified"),
        },
        |c| make_case(c).map(|q| to_json(&q)).unwrap_or(Value::Null),
    );
}

pub fn replay(ctx: &Ctx, case: &Value) {
    let c: QCase = serde_json::from_value(case.clone()).expect("replay file holds a QCase");
    ctx.run_list("replay", &[c], |c| judge(shared_db(), c), |c| to_json(c));
}
