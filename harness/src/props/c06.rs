//! C06 Operator precedence, associativity and grouping are respected.

use super::common::*;
use crate::ast::{eval_ref, render_layout, tokens, Expr, Lit, Op, ParenMode};
use crate::gen::{self, fixed_spell, LitCfg, TreeCfg};
use crate::runner::{fnv, CaseReport, Ctx};
use crate::tool::shared_db;
use proptest::prelude::*;
use serde_json::{json, Value};
use std::sync::OnceLock;

#[derive(Clone, Debug)]
enum Shape {
    Leaf,
    Node(Box<Shape>, Box<Shape>),
}

fn shapes(n: usize) -> Vec<Shape> {
    if n == 0 {
        return vec![Shape::Leaf];
    }
    let mut out = Vec::new();
    for l in 0..n {
        for a in shapes(l) {
            for b in shapes(n - 1 - l) {
                out.push(Shape::Node(Box::new(a.clone()), Box::new(b)));
            }
        }
    }
    out
}

fn shape_table() -> &'static Vec<Vec<Shape>> {
    static T: OnceLock<Vec<Vec<Shape>>> = OnceLock::new();
    T.get_or_init(|| (0..=6).map(shapes).collect())
}

const OPS: [&str; 5] = ["+", "-", "*", "/", "^"];
const POOL: [&str; 10] = ["1", "2", "3", "4", "5", "7", "0.5", "-2", "10", "0"];
const EPOOL: [&str; 7] = ["2", "3", "0", "1", "-1", "-2", "0.5"];

fn mix(a: u64, b: u64) -> u64 {
    let mut x = a.wrapping_mul(0x9E3779B97F4A7C15) ^ b.wrapping_add(0x7F4A7C15);
    x = (x ^ (x >> 29)).wrapping_mul(0xBF58476D1CE4E5B9);
    x ^ (x >> 32)
}

/// Build the AST for (shape, operator sequence); operands chosen per position
/// from the pools by a fixed function of the case index.
fn build(shape: &Shape, ops: &[usize], h: u64, next_op: &mut usize, next_leaf: &mut usize, exponent_pos: bool) -> Expr {
    match shape {
        Shape::Leaf => {
            let j = *next_leaf;
            *next_leaf += 1;
            let t = if exponent_pos { EPOOL[(mix(h, j as u64) % EPOOL.len() as u64) as usize] } else { POOL[(mix(h, j as u64) % POOL.len() as u64) as usize] };
            Expr::Num(Lit::from_text(t))
        }
        Shape::Node(a, b) => {
            let l = build(a, ops, h, next_op, next_leaf, false);
            let o = ops[*next_op];
            *next_op += 1;
            let r = build(b, ops, h, next_op, next_leaf, o == 4);
            match o {
                0 => Expr::bin(Op::Add, l, r),
                1 => Expr::bin(Op::Sub, l, r),
                2 => Expr::bin(Op::Mul, l, r),
                3 => Expr::bin(Op::Div, l, r),
                _ => match &r {
                    Expr::Num(lit) if lit.value.is_integer() => Expr::Pow(Box::new(l), lit.text.parse().unwrap()),
                    _ => Expr::PowE(Box::new(l), Box::new(r)),
                },
            }
        }
    }
}

/// Wrap subtrees selected by `mask` in redundant parentheses.
fn add_parens(e: &Expr, mask: u64, k: &mut u32) -> Expr {
    let me = *k;
    *k += 1;
    let inner = match e {
        Expr::Bin(o, a, b) => Expr::Bin(*o, Box::new(add_parens(a, mask, k)), Box::new(add_parens(b, mask, k))),
        Expr::Pow(a, n) => Expr::Pow(Box::new(add_parens(a, mask, k)), *n),
        Expr::PowE(a, x) => Expr::PowE(Box::new(add_parens(a, mask, k)), Box::new(add_parens(x, mask, k))),
        Expr::Cast(a, u) => Expr::Cast(Box::new(add_parens(a, mask, k)), u.clone()),
        Expr::Call(f, v) => Expr::Call(f, v.iter().map(|a| add_parens(a, mask, k)).collect()),
        Expr::Paren(a) => Expr::Paren(Box::new(add_parens(a, mask, k))),
        other => other.clone(),
    };
    let bits = (mask >> ((me % 21) * 3)) & 7;
    // a cast that is not at the top needs its parentheses anyway; never strip those
    match bits {
        0 | 1 => Expr::Paren(Box::new(inner)),
        2 if me % 2 == 0 => Expr::Paren(Box::new(Expr::Paren(Box::new(inner)))),
        _ => inner,
    }
}

pub const RENDERINGS: u64 = 32;

/// Rendering #r of an AST: parenthesisation × layout.
fn render(e: &Expr, r: u64, h: u64) -> (String, bool) {
    let pm = r / 8;
    let lay = r % 8;
    let (expr, mode) = match pm {
        0 => (e.clone(), ParenMode::Minimal),
        1 => (e.clone(), ParenMode::Full),
        2 => (add_parens(e, mix(h, 11), &mut 0), ParenMode::Minimal),
        _ => (add_parens(e, mix(h, 23), &mut 0), ParenMode::Minimal),
    };
    // the outermost redundant parenthesis is fine too
    let mut toks = tokens(&expr, mode);
    let hv = mix(h, 100 + r);
    // the lexer also knows `**` as a spelling of the power operator (same grammar rule as `^`): the random
    // layouts use it for half of their renderings, so that the alias has the same precedence everywhere
    if lay >= 5 && (hv >> 58) & 1 == 1 {
        for t in toks.iter_mut() {
            if t.text == "^" {
                t.text = "**".to_string();
            }
        }
    }
    let blanks = ["", " ", "\t "];
    let (choices, lead, trail): (Vec<u8>, &str, &str) = match lay {
        0 => (vec![1], "", ""),
        1 => (vec![0], "", ""),
        2 => (vec![2], "", ""),
        3 => (vec![3], "", ""),
        4 => (vec![4], " ", " "),
        _ => {
            let v: Vec<u8> = (0..24).map(|i| ((hv >> (i * 2)) % 5) as u8 ^ ((i as u8) & 1)).map(|x| x % 5).collect();
            (v, blanks[((hv >> 50) % 3) as usize], blanks[((hv >> 54) % 3) as usize])
        }
    };
    (render_layout(&toks, &choices, lead, trail), pm != 0 || lay != 0)
}

fn classify(e: &Expr, noncanonical: bool) -> (bool, Vec<&'static str>) {
    let mut precs = std::collections::BTreeSet::new();
    let mut right_paren = false;
    let mut nested = false;
    let mut cast = false;
    let mut call = false;
    e.visit(&mut |n| match n {
        Expr::Bin(op, _, b) => {
            precs.insert(op.prec());
            if matches!(**b, Expr::Bin(..) | Expr::Paren(_) | Expr::Cast(..)) {
                right_paren = true;
            }
        }
        Expr::Pow(..) => {
            precs.insert(10);
        }
        Expr::PowE(..) => {
            precs.insert(10);
            right_paren = true;
        }
        Expr::Paren(a) => {
            if matches!(**a, Expr::Paren(_)) {
                nested = true;
            }
        }
        Expr::Cast(..) => {
            precs.insert(1);
            cast = true;
        }
        Expr::Call(..) => call = true,
        _ => {}
    });
    let mut c = vec![];
    if precs.len() >= 2 {
        c.push("mixed-precedence");
    }
    if right_paren {
        c.push("right-operand-grouped");
    }
    if nested {
        c.push("nested-parentheses");
    }
    if noncanonical {
        c.push("non-canonical-layout-or-parens");
    }
    if cast {
        c.push("cast");
    }
    if call {
        c.push("function-argument");
    }
    (precs.len() >= 2 || right_paren || nested || noncanonical, c)
}

fn make_case(e: &Expr, r: u64, h: u64) -> Option<QCase> {
    let rf = eval_ref(e, &ObsEnv);
    let cast_unit = match e {
        Expr::Cast(_, u) => Some(u.mirror()),
        _ => None,
    };
    let expect = expect_of(&rf, cast_unit.as_ref())?;
    let (query, nc) = render(e, r, h);
    let (nt, mut classes) = classify(e, nc);
    if matches!(expect, Expect::Error { .. }) {
        classes.push("error-case");
    }
    Some(QCase { query, expect, nontrivial: nt, classes: classes.into_iter().map(|s| s.to_string()).collect() })
}

fn catalan(n: usize) -> u64 {
    shape_table()[n].len() as u64
}

fn ast_for(n: usize, a: u64) -> (Expr, u64) {
    let nshape = catalan(n);
    let si = (a % nshape) as usize;
    let mut oi = a / nshape;
    let mut ops = vec![0usize; n];
    for k in (0..n).rev() {
        ops[k] = (oi % 5) as usize;
        oi /= 5;
    }
    let h = mix(n as u64, a);
    let e = build(&shape_table()[n][si], &ops, h, &mut 0, &mut 0, false);
    (e, h)
}

/// Variants that add `to`, function calls and parenthesised casts around an AST.
fn variant(e: Expr, v: u64, h: u64) -> Expr {
    let m = fixed_spell(&[("m", 1)]);
    let cm = fixed_spell(&[("cm", 1)]);
    let s = fixed_spell(&[("s", 1)]);
    match v {
        0 => Expr::Cast(Box::new(e), m),
        1 => Expr::Cast(Box::new(Expr::Cast(Box::new(e), m)), cm),
        2 => Expr::bin(Op::Add, Expr::Paren(Box::new(Expr::Cast(Box::new(e), m))), Expr::num(1 + (h % 5) as i64)),
        3 => Expr::bin(Op::Mul, Expr::num(2), Expr::Paren(Box::new(Expr::Cast(Box::new(e), s)))),
        4 => Expr::Call("round", vec![e]),
        5 => Expr::Call("round", vec![e, Expr::num((h % 5) as i64 - 2)]),
        6 => Expr::bin(Op::Sub, Expr::Call("floor", vec![e.clone()]), Expr::Call("ceil", vec![e])),
        7 => Expr::Cast(Box::new(Expr::bin(Op::Add, Expr::Paren(Box::new(Expr::Cast(Box::new(e), cm))), Expr::Qty(Lit::int(1), m.clone()))), m),
        8 => Expr::bin(Op::Div, Expr::Paren(Box::new(Expr::Cast(Box::new(e.clone()), m))), Expr::Paren(Box::new(Expr::Cast(Box::new(Expr::num(2)), s)))),
        9 => Expr::Pow(Box::new(Expr::Paren(Box::new(Expr::Cast(Box::new(e), m)))), 2),
        // a digits argument of three digits (nothing may glue it to the first argument across the comma)
        10 => Expr::Call("round", vec![e, Expr::num(100 + (h % 900) as i64)]),
        _ => Expr::bin(Op::Add, Expr::Call("round", vec![Expr::num(7), Expr::num(100 + (h % 900) as i64)]), Expr::Call("round", vec![e, Expr::num(100 + ((h >> 10) % 900) as i64)])),
    }
}
const VARIANTS: u64 = 12;

/// Long flat expressions: 30-130 terms (literals, calls, parenthesised groups) joined by + - *, so that
/// whatever the parser counts or accumulates per term (nesting depth, stack entries) has room to drift.
fn long_flat() -> impl Strategy<Value = RandCase> {
    let term = prop_oneof![
        3 => (1i64..=9).prop_map(Expr::num),
        3 => (1i64..=9).prop_map(|k| Expr::Call("round", vec![Expr::num(k)])),
        1 => (1i64..=9).prop_map(|k| Expr::Call("floor", vec![Expr::Num(Lit::from_text(&format!("{}.5", k)))])),
        1 => (1i64..=9, -2i64..=2).prop_map(|(k, n)| Expr::Call("round", vec![Expr::num(k), Expr::num(n)])),
        2 => (1i64..=9, 1i64..=9).prop_map(|(a, b)| Expr::Paren(Box::new(Expr::bin(Op::Add, Expr::num(a), Expr::num(b))))),
        1 => (1i64..=9, 1i64..=9).prop_map(|(a, b)| Expr::Paren(Box::new(Expr::Paren(Box::new(Expr::bin(Op::Mul, Expr::num(a), Expr::num(b))))))),
    ];
    (prop::collection::vec((term, prop_oneof![4 => Just(Op::Add), 3 => Just(Op::Sub), 1 => Just(Op::Mul)]), 30..=130), any::<u64>(), prop_oneof![Just(0u64), Just(1), Just(5), Just(6)]).prop_map(|(terms, h, r)| {
        let mut it = terms.into_iter();
        let (first, _) = it.next().unwrap();
        let mut e = first;
        for (t, op) in it {
            e = Expr::bin(op, e, t);
        }
        RandCase { expr: e, r, h }
    })
}

#[derive(Clone, Debug)]
struct RandCase {
    expr: Expr,
    r: u64,
    h: u64,
}

fn rand_case(depth: u32) -> impl Strategy<Value = RandCase> {
    let cfg = TreeCfg { depth, size: 48, max_pow: 4, pow_weight_cap: 64, lit: LitCfg::PLAIN, calls: true };
    (gen::num_expr(cfg), 0..RENDERINGS, any::<u64>(), prop::option::weighted(0.3, 0..VARIANTS)).prop_map(|(e, r, h, v)| {
        let expr = match v {
            Some(v) => variant(e, v, h),
            None => e,
        };
        RandCase { expr, r, h }
    })
}

/// Deep nesting: a small expression wrapped 20-150 times in parentheses and rounding calls, with operators
/// applied on the way out, so that whatever the parser keeps per nesting level is exercised far beyond what the
/// short enumerated expressions reach.
fn deep_nesting() -> impl Strategy<Value = RandCase> {
    (1i64..=9, prop::collection::vec((0u8..6, 1i64..=9), 20..=150), any::<u64>(), prop_oneof![Just(0u64), Just(1), Just(5)]).prop_map(|(seed, layers, h, r)| {
        let mut e = Expr::num(seed);
        for (kind, k) in layers {
            e = match kind {
                0 | 1 => Expr::Paren(Box::new(e)),
                2 => Expr::Call("round", vec![e]),
                3 => Expr::bin(Op::Add, Expr::num(k), Expr::Paren(Box::new(e))),
                4 => Expr::bin(Op::Sub, Expr::Paren(Box::new(e)), Expr::num(k)),
                _ => Expr::Call("floor", vec![Expr::bin(Op::Add, e, Expr::Num(Lit::from_text("0.5")))]),
            };
        }
        RandCase { expr: e, r, h }
    })
}

/// `5w`, `5 w`, `5  w`, `5<tab>w` (alone, in a product, in a sum) must all be the same quantity, or all refused.
fn check_gap(word: &String) -> CaseReport {
    let db = shared_db();
    let forms = |gap: &str| vec![format!("5{}{}", gap, word), format!("5{}{} * 2", gap, word), format!("1{g}{w} + 2{g}{w}", g = gap, w = word)];
    let base = forms("");
    let summary = |q: &str| match crate::tool::run(db, q) {
        Ok(rs) => rs
            .iter()
            .map(|r| match r {
                crate::tool::R::Ok(v) => format!("{} {:?}", v.value, v.unit),
                crate::tool::R::Err { .. } => "error".to_string(),
            })
            .collect::<Vec<_>>()
            .join(" | "),
        Err(p) => format!("panic {}", p),
    };
    for gap in [" ", "  ", "\t", " \t "] {
        for (k, q) in forms(gap).iter().enumerate() {
            let (a, b) = (summary(&base[k]), summary(q));
            if a != b {
                return CaseReport::fail(q.clone(), "blank-between-number-and-unit-matters", json!({"glued": base[k], "glued_result": a, "with_blank": q, "result": b}));
            }
        }
    }
    CaseReport::pass(format!("5 {}", word), true, vec!["number-unit-gap"])
}

pub fn run_check(ctx: &Ctx) {
    ctx.set_rule("all operator sequences over + - * / ^ up to the stated length x all binary tree shapes (Catalan), operands from fixed pools, each AST rendered in 32 ways (minimal / full / two redundant parenthesisations x 8 blank layouts incl. no blanks where allowed, double blanks, tabs, leading/trailing blanks; plus every other character the tool's lexer takes into a blank run (no-break space, thin space, ideographic space, line breaks, vertical tab …) in every position of a run; the random layouts spell the power operator `**` half of the time); plus chains of + and - with plain numbers between quantities (the grouping is observable through the unit a plain number adopts), parenthesised casts with one-word and several-word targets glued to the closing parenthesis or comma, `to`/round/floor/ceil variants (also with three-digit digits arguments), random deeper trees long flat expressions of 30-130 terms mixing calls and parenthesised groups, expressions nested 20-150 levels deep in parentheses and calls, expressions with one gap of 2^16 or more blanks, and for every accepted vocabulary word the gap between a number and its unit (none, one, several blanks, tabs); oracle = reference evaluation of the AST; non-trivial = operators of >=2 precedence levels, or a grouped right operand, or nested parentheses, or a non-canonical rendering; distinct by query text");
    ctx.assume("blank policy: + - and `to` always have a blank on both sides; no blank is omitted next to a unit or phrase (a blank next to * or / ends a unit expression in this grammar)");
    let corpus: Vec<(String, QCase)> = load_corpus("C06");
    let cases: Vec<QCase> = corpus.into_iter().map(|c| c.1).collect();
    ctx.run_list("corpus", &cases, |c| judge(shared_db(), c), |c| to_json(c));

    let maxn = ctx.tier.pick(4usize, 6);
    for n in 1..=maxn {
        let asts = 5u64.pow(n as u32) * catalan(n);
        // thorough n=6 is sampled on renderings (8 of 32 per AST, rotating)
        let per = if n >= 6 { 8 } else { RENDERINGS };
        ctx.run_enum(
            &format!("exhaustive-{}-operators", n),
            asts * per,
            |i| {
                let a = i / per;
                let r = if per == RENDERINGS { i % per } else { (i % per) * 4 + (a % 4) };
                let (e, h) = ast_for(n, a);
                make_case(&e, r, h)
            },
            |c| judge(shared_db(), c),
            |c| to_json(c),
        );
    }
    // `to`, function arguments, parenthesised casts
    let vn = ctx.tier.pick(3usize, 4);
    for n in 0..=vn {
        let asts = 5u64.pow(n as u32) * catalan(n);
        let rs = 8u64;
        ctx.run_enum(
            &format!("cast-and-call-variants-{}-operators", n),
            asts * VARIANTS * rs,
            |i| {
                let r = (i % rs) * 4 + ((i / rs) % 4);
                let v = (i / rs) % VARIANTS;
                let a = i / rs / VARIANTS;
                let (e, h) = ast_for(n, a);
                make_case(&variant(e, v, h), r, h)
            },
            |c| judge(shared_db(), c),
            |c| to_json(c),
        );
    }
    ctx.exhaustive.store(true, std::sync::atomic::Ordering::Relaxed);
    ctx.put("exhaustive_scope", json!(format!("operator sequences of length 1..={} x all tree shapes x 32 renderings (length 6: 8 renderings per tree)", maxn)));
    let n = ctx.tier.pick(100_000u64, 3_000_000);
    let depth = ctx.tier.pick(6, 8);
    ctx.run_gen(
        "random-deeper",
        || rand_case(depth),
        n,
        |c| match make_case(&c.expr, c.r, c.h) {
            Some(q) => judge(shared_db(), &q),
            None => CaseReport::discard("", "reference-unspecified"),
        },
        |c| match make_case(&c.expr, c.r, c.h) {
            Some(q) => to_json(&q),
            None => Value::Null,
        },
    );
    ctx.run_gen(
        "long-flat",
        long_flat,
        n / 40,
        |c| match make_case(&c.expr, c.r, c.h) {
            Some(q) => judge(shared_db(), &q),
            None => CaseReport::discard("", "reference-unspecified"),
        },
        |c| match make_case(&c.expr, c.r, c.h) {
            Some(q) => to_json(&q),
            None => Value::Null,
        },
    );
    // a run of 2^16 blanks and more in one gap (spaces, tabs, mixed): "the number of blanks does not matter"
    {
        let mut cases: Vec<QCase> = Vec::new();
        for (k, a) in [3u64, 17, 101, 977, 4242].iter().enumerate() {
            let (e, _) = ast_for(3, *a);
            if let Some(base) = make_case(&e, 0, 0) {
                let gaps: Vec<usize> = base.query.char_indices().filter(|(_, c)| *c == ' ').map(|(i, _)| i).collect();
                for (j, n) in [65_536usize, 65_537, 70_000].iter().enumerate() {
                    if gaps.is_empty() {
                        continue;
                    }
                    let at = gaps[(k + j) % gaps.len()];
                    let run = match (k + j) % 3 {
                        0 => " ".repeat(*n),
                        1 => "\t".repeat(*n),
                        _ => " \t".repeat(n / 2 + 1),
                    };
                    let mut c = base.clone();
                    c.query = format!("{}{}{}", &base.query[..at], run, &base.query[at + 1..]);
                    c.nontrivial = true;
                    c.classes.push("gap-of-65536-or-more-blanks".to_string());
                    cases.push(c);
                }
            }
        }
        ctx.run_list("huge-blank-runs", &cases, |c| judge(shared_db(), c), |c| to_json(c));
    }
    // chains of + and - in which plain numbers stand between quantities: a plain number adopts the unit of what it
    // is combined with, so here — unlike in exact arithmetic on numbers alone — `a + b - c` grouped as `a + (b - c)`
    // is another quantity, and the left-to-right rule becomes observable
    ctx.run_gen(
        "mixed-chains(grouping observable)",
        || super::c02::chain().prop_filter("a plain number between quantities", |c| !c.plain_mid.is_empty() || (!c.plain.is_empty() && c.rest.len() >= 2)),
        3_000,
        |c| match super::c02::chain_case(c) {
            Some(q) => judge(shared_db(), &q),
            None => CaseReport::discard("", "reference-unspecified"),
        },
        |c| super::c02::chain_case(c).map(|q| to_json(&q)).unwrap_or(Value::Null),
    );
    // a parenthesised cast is a unit wherever it stands: with one-word and several-word targets, the closing
    // parenthesis or the comma of a call directly behind the last unit word, nested, as either operand
    {
        let casts = [("1 J", "N m"), ("7200 J", "W h"), ("3 N s", "newton second"), ("1 J", "N*m"), ("5 km", "m"), ("2 hr", "min"), ("1 kWh", "W hr"), ("9 N m", "J"), ("1 Pa", "N m^-2"), ("4 J/s", "W")];
        let mut cases: Vec<(String, String)> = Vec::new();
        for (src, tgt) in casts {
            let bare = format!("{} to {}", src, tgt);
            let spaced = format!("( {} to {} )", src, tgt);
            for q in [format!("({} to {})", src, tgt), format!("(({} to {}))", src, tgt), format!("( ({} to {}) )", src, tgt)] {
                cases.push((bare.clone(), q));
            }
            for (a, b) in [
                (format!("{} * 2", spaced), format!("({} to {}) * 2", src, tgt)),
                (format!("{} * 2", spaced), format!("({} to {})*2", src, tgt)),
                (format!("2 * {}", spaced), format!("2 * ({} to {})", src, tgt)),
                (format!("2 * {}", spaced), format!("2*({} to {})", src, tgt)),
                (format!("{} + {}", spaced, spaced), format!("({} to {}) + ({} to {})", src, tgt, src, tgt)),
                (format!("round( {} to {} , 0 )", src, tgt), format!("round({} to {}, 0)", src, tgt)),
                (format!("round( {} to {} , 1 )", src, tgt), format!("round({} to {},1)", src, tgt)),
                (format!("floor( {} to {} )", src, tgt), format!("floor({} to {})", src, tgt)),
                (format!("{} {}", spaced, spaced), format!("({} to {}) ({} to {})", src, tgt, src, tgt)),
            ] {
                cases.push((a, b));
            }
        }
        ctx.run_list("parenthesised-casts", &cases, |(b, q)| check_same(b, q, "parenthesised-cast-not-a-unit", "parenthesised-cast"), |(b, q)| json!({"blank_kinds": {"base": b, "query": q}}));
    }
    // kinds of blanks: every character the tool's own lexer takes into a blank run (one WHITESPACE token for
    // space-X-space) is a blank; a query with such blanks in any position of a run — first, last, alone, doubled —
    // must evaluate as it does with plain spaces
    {
        use anything::syntax::lexer::Lexer;
        use anything::syntax::parser::Syntax;
        let candidates = ['\u{a0}', '\u{2009}', '\u{3000}', '\u{b}', '\u{c}', '\n', '\r', '\u{2028}', '\u{2029}', '\u{85}', '\u{1680}', '\u{2003}', '\u{202f}', '\u{205f}', '\t'];
        let kinds: Vec<char> = candidates
            .iter()
            .copied()
            .filter(|x| {
                let s = format!(" {} ", x);
                let toks: Vec<_> = Lexer::new(&s).collect();
                toks.len() == 1 && toks[0].kind == Syntax::WHITESPACE
            })
            .collect();
        ctx.put("blank_kinds", json!(kinds.iter().map(|c| format!("U+{:04X}", *c as u32)).collect::<Vec<_>>()));
        let bases = ["1 + 2 * 3", "( 1 + 2 ) ^ 2", "8 / 2 / 2", "2 ^ 3 ^ 2", "1 - 2 - 3", "2 * ( 3 + 4 ) - 5", "round( 2.567 , 2 ) + 1", "10 km to m", "3 m + 4 m", "50 % * 4", "floor( 1.5 ) * 2", " 7 ", "1 + 2 to 1", "6 m / 2 s", "( 1 + 2 ) ( 3 )", "2 ** 3 + 1", "1 / 0 + 1"];
        let mut cases: Vec<(String, String)> = Vec::new();
        for b in bases {
            for x in &kinds {
                for shape in 0..5 {
                    let rep = match shape {
                        0 => x.to_string(),
                        1 => format!("{} ", x),
                        2 => format!(" {}", x),
                        3 => format!("{}{}", x, x),
                        _ => format!(" {} ", x),
                    };
                    cases.push((b.to_string(), b.replace(' ', &rep)));
                    // only one gap changed: the first, and the last
                    if let Some(i) = b.find(' ') {
                        cases.push((b.to_string(), format!("{}{}{}", &b[..i], rep, &b[i + 1..])));
                    }
                    if let Some(i) = b.rfind(' ') {
                        cases.push((b.to_string(), format!("{}{}{}", &b[..i], rep, &b[i + 1..])));
                    }
                }
            }
        }
        ctx.run_list(
            "blank-kinds",
            &cases,
            |(base, q)| check_blank_kind(base, q),
            |(base, q)| json!({"blank_kinds": {"base": base, "query": q}}),
        );
    }
    // the gap between a number and its unit: for every vocabulary word the tool accepts, `5w`, `5 w`, `5  w` and
    // `5<tab>w` — alone, in a product and in a sum — must be the same quantity (or all be refused)
    {
        let w = crate::gen::words();
        let accepted: Vec<&str> = w.all.iter().filter(|x| x.tool_reading.is_some()).map(|x| x.word.text.as_str()).collect();
        ctx.put("words_in_the_number_unit_gap_check", json!(accepted.len()));
        ctx.run_enum(
            "number-unit-gap",
            accepted.len() as u64,
            |i| Some(accepted[i as usize].to_string()),
            |word| check_gap(word),
            |word| json!({"gap_word": word}),
        );
    }
    ctx.run_gen(
        "deep-nesting",
        deep_nesting,
        n / 40,
        |c| match make_case(&c.expr, c.r, c.h) {
            Some(q) => judge(shared_db(), &q),
            None => CaseReport::discard("", "reference-unspecified"),
        },
        |c| match make_case(&c.expr, c.r, c.h) {
            Some(q) => to_json(&q),
            None => Value::Null,
        },
    );
    let _ = fnv;
}

fn check_blank_kind(base: &str, q: &str) -> CaseReport {
    check_same(base, q, "kind-of-blank-matters", "blank-kinds")
}

/// Two layouts of one expression evaluate alike.
fn check_same(base: &str, q: &str, sig: &str, class: &'static str) -> CaseReport {
    let db = shared_db();
    let show = |r: &Result<Vec<crate::tool::R>, String>| match r {
        Ok(v) => v
            .iter()
            .map(|x| match x {
                crate::tool::R::Ok(v) => format!("{} {:?}", v.value, v.unit),
                crate::tool::R::Err { .. } => "error".to_string(),
            })
            .collect::<Vec<_>>()
            .join(" ; "),
        Err(p) => format!("panic: {}", p),
    };
    let (a, b) = (show(&crate::tool::run(db, base)), show(&crate::tool::run(db, q)));
    if a == b {
        CaseReport::pass(q, true, vec![class])
    } else {
        CaseReport::fail(q, sig, json!({"with_spaces": base, "result": a, "query": q, "its_result": b}))
    }
}

pub fn replay(ctx: &Ctx, case: &Value) {
    if let Some(k) = case.get("blank_kinds") {
        let pair = (k["base"].as_str().unwrap_or("").to_string(), k["query"].as_str().unwrap_or("").to_string());
        ctx.run_list("replay", &[pair], |(b, q)| check_blank_kind(b, q), |(b, q)| json!({"blank_kinds": {"base": b, "query": q}}));
        return;
    }
    if let Some(w) = case.get("gap_word").and_then(|v| v.as_str()) {
        ctx.run_list("replay", &[w.to_string()], check_gap, |w| json!({"gap_word": w}));
        return;
    }
    let c: QCase = serde_json::from_value(case.clone()).expect("replay file holds a QCase");
    ctx.run_list("replay", &[c], |c| judge(shared_db(), c), |c| to_json(c));
}
