//! C11 Any input yields values or located errors, never a crash.

use super::common::*;
use crate::ast::render_canonical;
use crate::facts::facts;
use crate::gen::{self, words, LitCfg, TreeCfg};
use crate::runner::{guarded, pick_idx, watch_begin, watch_end, CaseReport, Ctx, Tier};
use crate::tool::shared_db;
use anything::syntax::lexer::Lexer;
use anything::{Options};
use proptest::prelude::*;
use serde::{Deserialize, Serialize};
use serde_json::{json, Value};
use std::process::Command;

#[derive(Clone, Debug, Serialize, Deserialize)]
pub struct StrCase {
    pub input: String,
}

/// Enforce the stated size bounds on any input string: a power operator (`^`,
/// `**`) is followed by an integer of at most two digits (product of all such
/// exponents <= 1000), a number after a comma has at most two digits, and a
/// literal's exponent has at most three digits.  Everything else is untouched.
pub fn sanitize(s: &str) -> String {
    let cs: Vec<char> = s.chars().collect();
    let mut out = String::with_capacity(s.len() + 8);
    let mut i = 0;
    let mut product: u64 = 1;
    let is_num_cont = |c: char| c.is_ascii_digit() || c == '.' || c == 'e' || c == 'E';
    while i < cs.len() {
        let c = cs[i];
        let power = c == '^' || (c == '*' && i + 1 < cs.len() && cs[i + 1] == '*');
        if power || c == ',' {
            out.push(c);
            i += 1;
            if power && c == '*' {
                out.push('*');
                i += 1;
            }
            // blanks
            while i < cs.len() && cs[i].is_whitespace() {
                out.push(cs[i]);
                i += 1;
            }
            let mut j = i;
            let mut sign = None;
            if j < cs.len() && (cs[j] == '-' || cs[j] == '+') {
                sign = Some(cs[j]);
                j += 1;
            }
            let ds = j;
            while j < cs.len() && cs[j].is_ascii_digit() {
                j += 1;
            }
            if j > ds {
                // a number follows: keep at most two digits, drop its continuation
                let kept: String = cs[ds..j.min(ds + 2)].iter().collect();
                let mut n: u64 = kept.parse().unwrap_or(1);
                let mut kept = kept;
                if power {
                    if product.saturating_mul(n.max(1)) > 1000 {
                        kept = "1".into();
                        n = 1;
                    }
                    product = product.saturating_mul(n.max(1));
                }
                if let Some(sg) = sign {
                    out.push(sg);
                }
                out.push_str(&kept);
                while j < cs.len() && is_num_cont(cs[j]) {
                    j += 1;
                }
                out.push(' ');
                i = j;
            } else if c == ',' && matches!(cs.get(j), Some(c) if c.is_alphanumeric() || matches!(c, '(' | '{' | '.' | '°' | '\'')) {
                // a digits argument that is not a literal (a word may be a fact worth millions, a group may compute
                // anything): `round(x, n)` builds 10^n, so the stated bound "at most two digits after a comma" is kept
                // by taking the comma away — the words join the first argument
                if let Some(at) = out.rfind(',') {
                    out.replace_range(at..at + 1, " ");
                }
            } else if power && !matches!(cs.get(j), Some(c) if c.is_alphanumeric() || matches!(c, '(' | '{' | '.' | '°' | '\'')) {
                // nothing that could evaluate to a number follows (end of input, a closing bracket, an
                // operator, a blank that is not followed by a value ...): the operator is left dangling as
                // written — the evaluator must answer with a located error
            } else if power {
                // something else follows: give the operator a small exponent of its own
                // (counted against the same product bound)
                if product.saturating_mul(2) > 1000 {
                    out.push_str("1 ");
                } else {
                    product *= 2;
                    out.push_str("2 ");
                }
            }
            continue;
        }
        // literal exponent: digit [eE] [+-]? digits{4,} -> keep three digits
        // (a literal may lack its mantissa digits altogether: `+e5`, `-.e5` are NUMBER tokens for the lexer)
        if (c == 'e' || c == 'E') && i > 0 && (cs[i - 1].is_ascii_digit() || matches!(cs[i - 1], '.' | '+' | '-')) {
            let mut j = i + 1;
            if j < cs.len() && (cs[j] == '-' || cs[j] == '+') {
                j += 1;
            }
            let ds = j;
            while j < cs.len() && cs[j].is_ascii_digit() {
                j += 1;
            }
            if j - ds > 3 {
                for k in i..ds + 3 {
                    out.push(cs[k]);
                }
                out.push(' ');
                i = j;
                continue;
            }
        }
        out.push(c);
        i += 1;
    }
    out
}

/// Product of the absolute values of all integers that directly follow a power operator (`^`, `**`) in the input.
pub fn tower_product(s: &str) -> u64 {
    let cs: Vec<char> = s.chars().collect();
    let mut prod: u64 = 1;
    let mut i = 0;
    while i < cs.len() {
        let adv = if cs[i] == '^' {
            1
        } else if cs[i] == '*' && cs.get(i + 1) == Some(&'*') {
            2
        } else {
            0
        };
        if adv == 0 {
            i += 1;
            continue;
        }
        i += adv;
        while i < cs.len() && cs[i].is_whitespace() {
            i += 1;
        }
        if i < cs.len() && (cs[i] == '-' || cs[i] == '+') {
            i += 1;
        }
        let st = i;
        while i < cs.len() && cs[i].is_ascii_digit() && i - st < 4 {
            i += 1;
        }
        if i > st {
            let n: u64 = cs[st..i].iter().collect::<String>().parse().unwrap_or(1);
            prod = prod.saturating_mul(n.max(1));
        }
    }
    prod
}

/// Signature of an integer overflow on a unit power: the operation and the source file it happened in (files of
/// `src/units/` as one group), never a line — `unit-power-i32-overflow:add@compound.rs`.  The open finding lists the
/// combinations seen on the unchanged tree; an overflow somewhere else is a new violation.  Queries with a single
/// unit word (one quantity raised to powers) are told apart: there only the display of a power of exactly -2^31
/// overflows on the unchanged tree, `Compound::pow` itself is checked.
fn overflow_signature(p: &str, input: &str) -> String {
    let op = ["add", "subtract", "multiply", "negate", "divide"].iter().find(|o| p.contains(&format!("attempt to {} with overflow", o))).copied().unwrap_or("other");
    let file = p.rsplit(" at ").next().unwrap_or("").rsplit_once(':').map(|x| x.0).unwrap_or("");
    let file = match file.find("/src/") {
        Some(i) => &file[i + 5..],
        None => file,
    };
    let file = if file.starts_with("units/") { "units/*.rs" } else { file };
    // a query with a single unit word is one quantity raised to powers — no product or sum of two units in it
    let mut words = 0;
    let mut inside = false;
    for c in input.chars() {
        let w = c.is_alphabetic() || c == '°';
        if w && !inside {
            words += 1;
        }
        inside = w;
    }
    let shape = match (words <= 1, input.contains('/')) {
        (true, false) => ":single-unit-word",
        (true, true) => ":single-unit-word-under-a-division",
        // products, quotients and sums of two or more units: the finding covers about a hundred unchecked sites
        // (sums in Compound::mul, `p * k` of every derived unit, the display) — one signature for all of them
        _ => return "unit-power-i32-overflow".to_string(),
    };
    format!("unit-power-i32-overflow:{}@{}{}", op, file, shape)
}

pub fn check_str(db: &anything::Db, s: &str) -> CaseReport {
    let r = guarded(s, || -> Result<(usize, usize, usize), (String, String)> {
        let ntok = Lexer::new(s).count();
        let parsed = match anything::parse(s) {
            Ok(p) => p,
            Err(e) => return Err(("parse-returns-error".into(), e.to_string())),
        };
        let mut descs = Vec::new();
        let mut n = 0usize;
        let mut reached = 0usize;
        for r in anything::query(&parsed, db, Options::default(), &mut descs) {
            n += 1;
            if n > 10_000 {
                return Err(("result-sequence-does-not-end".into(), String::new()));
            }
            match r {
                Ok(v) => {
                    reached += 1;
                    // the value can be displayed
                    let spec = anything::rational::DisplaySpec::default();
                    let a = v.value.display(&spec).to_string();
                    let b = v.unit.display(false).to_string();
                    let c = v.unit.display(true).to_string();
                    let d = format!("{:?} {}", v.unit, v.unit);
                    if a.is_empty() {
                        return Err(("value-displays-as-nothing".into(), format!("{}{}{}{}", a, b, c, d)));
                    }
                }
                Err(e) => {
                    let msg = e.to_string();
                    if msg.is_empty() {
                        return Err(("error-without-message".into(), String::new()));
                    }
                    if msg != "syntax error" {
                        reached += 1;
                    }
                    let rg = e.range();
                    if !(rg.start <= rg.end && rg.end <= s.len() && s.is_char_boundary(rg.start) && s.is_char_boundary(rg.end)) {
                        return Err(("error-range-outside-input".into(), format!("range {}..{} of {:?} (len {}) for error {:?}", rg.start, rg.end, s, s.len(), msg)));
                    }
                }
            }
        }
        Ok((ntok, n, reached))
    });
    match r {
        // known finding (DESIGN 5, #19): unit powers are plain i32 and none of the arithmetic on them is checked,
        // so a unit power driven towards 2^31 by a tower of `^` overflows in debug-assertion builds.  Keyed on
        // the input class (product of the exponents behind power operators) and the panic kind, not on a line.
        Err(p) if p.contains("with overflow") && tower_product(s) >= (1u64 << 24) => CaseReport::fail(s, overflow_signature(&p, s), json!({"input": s, "panic": p, "product_of_exponents": tower_product(s)})),
        Err(p) => CaseReport::fail(s, format!("panic:{}", panic_site(&p)), json!({"input": s, "panic": p})),
        Ok(Err((sig, why))) => CaseReport::fail(s, sig, json!({"input": s, "why": why})),
        Ok(Ok((ntok, n, reached))) => {
            let mut classes = vec![];
            if reached > 0 {
                classes.push("reaches-evaluator");
            }
            if n >= 2 {
                classes.push("multi-result");
            }
            if !s.is_ascii() {
                classes.push("non-ascii");
            }
            CaseReport::pass(s, ntok >= 3 && reached > 0, classes)
        }
    }
}

// ------------------------------------------------------------------ soups

fn soup_token() -> impl Strategy<Value = String> {
    let num = prop_oneof![
        4 => (0u32..1000).prop_map(|n| n.to_string()),
        2 => gen::lit(LitCfg { max_int_digits: 6, max_frac_digits: 4, max_exp: 999, allow_percent: true, allow_neg: true, allow_plus: true, allow_exotic: true }).prop_map(|l| l.text),
        1 => Just("0".to_string()),
        1 => prop_oneof![Just("-273.15"), Just("-459.67"), Just("273.15"), Just("32"), Just("-40"), Just("0.0"), Just("-0"), Just("1"), Just("100%")].prop_map(|s| s.to_string()),
    ];
    let unit = any::<u16>().prop_map(|i| {
        let w = words();
        w.all[pick_idx(i, w.all.len())].word.text.clone()
    });
    let short_unit = prop_oneof![Just("m"), Just("s"), Just("kg"), Just("km"), Just("N"), Just("J"), Just("°C"), Just("°F"), Just("K"), Just("c"), Just("h"), Just("Wb"), Just("V"), Just("ft"), Just("gal"), Just("B")].prop_map(|s| s.to_string());
    let op = prop_oneof![Just("+"), Just("-"), Just("*"), Just("/"), Just("^"), Just("**"), Just("to"), Just("%"), Just(","), Just("("), Just(")"), Just("{"), Just("}")].prop_map(|s| s.to_string());
    let func = prop_oneof![Just("round("), Just("floor("), Just("ceil("), Just("sin("), Just("cos("), Just("round"), Just("nosuch(")].prop_map(|s| s.to_string());
    let fact = any::<u16>().prop_map(|i| {
        let f = &facts().all;
        let t = &f[pick_idx(i, f.len())].tokens;
        if i % 3 == 0 {
            t.join(" ")
        } else {
            t[(i as usize / 3) % t.len()].clone()
        }
    });
    let odd = prop_oneof![Just("µ"), Just("é"), Just("日本"), Just("\u{a0}"), Just("\u{3000}"), Just("\u{2009}"), Just("'"), Just("°"), Just("="), Just("_"), Just("\""), Just("."), Just("e"), Just("E"), Just("1e"), Just("1e+"), Just(".."), Just("\u{0}"), Just("\n"), Just("🚀"), Just("Ω"), Just("μm")].prop_map(|s| s.to_string());
    prop_oneof![6 => num, 3 => unit, 5 => short_unit, 8 => op, 1 => func, 1 => fact, 1 => odd]
}

fn soup() -> impl Strategy<Value = String> {
    prop::collection::vec((soup_token(), prop_oneof![5 => Just(" "), 2 => Just(""), 1 => Just("  "), 1 => Just("\t")]), 1..=40).prop_map(|v| {
        let mut s = String::new();
        for (t, sep) in v {
            s.push_str(&t);
            s.push_str(sep);
        }
        sanitize(&s)
    })
}

/// Well-formed expressions with one or two token-level mutations.
fn mutated() -> impl Strategy<Value = String> {
    let small = TreeCfg { depth: 4, size: 12, max_pow: 3, pow_weight_cap: 27, lit: LitCfg::SMALL, calls: true };
    let base = prop_oneof![
        3 => gen::num_expr(small).prop_map(|e| render_canonical(&e)),
        3 => super::c04::tree().prop_map(|e| render_canonical(&e)),
        2 => super::c02::pair().prop_map(|p| render_canonical(&super::c02::expr_of(&p))),
        2 => super::c18::exprs_plain().prop_map(|es| es.iter().map(|e| render_canonical(e)).collect::<Vec<_>>().join(" ")),
    ];
    (base, prop::collection::vec((0u8..9, any::<u16>(), soup_token()), 0..=2)).prop_map(|(b, muts)| {
        let mut toks: Vec<String> = b.split(' ').map(|t| t.to_string()).collect();
        for (kind, pos, tok) in muts {
            if toks.is_empty() {
                break;
            }
            let i = pick_idx(pos, toks.len());
            match kind {
                0 => {
                    toks.remove(i);
                }
                1 => {
                    let t = toks[i].clone();
                    toks.insert(i, t);
                }
                2 => {
                    if i + 1 < toks.len() {
                        toks.swap(i, i + 1);
                    }
                }
                3 => toks.insert(i, tok),
                4 => toks[i] = tok,
                6 | 7 | 8 => {
                    // a multi-byte character (blank or not) glued directly behind a token — optionally after a
                    // dangling operator, optionally cutting the rest off: an error located "one past" something
                    // by byte arithmetic would end inside that character
                    const MB: [&str; 10] = ["\u{a0}", "\u{3000}", "\u{2003}", "\u{2009}", "é", "µ", "²", "日", "🚀", "Ω"];
                    const OPS: [&str; 8] = ["^", "**", "*", "/", "+", "-", "(", ","];
                    let mb = MB[(pos as usize / 7) % MB.len()];
                    if kind >= 7 {
                        toks[i].push_str(OPS[(pos as usize / 3) % OPS.len()]);
                    }
                    toks[i].push_str(mb);
                    if kind == 8 {
                        toks.truncate(i + 1);
                    }
                }
                _ => {
                    // glue with the next token
                    if i + 1 < toks.len() {
                        let n = toks.remove(i + 1);
                        toks[i].push_str(&n);
                    }
                }
            }
        }
        sanitize(&toks.join(" "))
    })
}

fn cli_check(c: &StrCase) -> CaseReport {
    let s = &c.input;
    if s.contains('\0') {
        return CaseReport::discard(s, "NUL cannot be passed as an argument");
    }
    let any = std::env::current_exe().unwrap().parent().unwrap().join("any");
    let xdg = format!("{}/build/xdg/C11-{}", crate::runner::verif_root(), std::process::id());
    let mut cmd = Command::new(&any);
    cmd.env("XDG_DATA_HOME", &xdg).env("TERM", "dumb").env("NO_COLOR", "1").env_remove("RUST_LOG");
    // every other input with the most verbose log level (configuration that must not matter; log output is on stderr)
    if s.len() % 2 == 0 {
        cmd.env("RUST_LOG", "trace");
    }
    cmd.arg("--").arg(s);
    watch_begin(s);
    let o = cmd.output();
    watch_end();
    match o {
        Err(e) => CaseReport::fail(s, "cannot-run-binary", json!({"error": e.to_string()})),
        Ok(o) => {
            let stderr = String::from_utf8_lossy(&o.stderr).to_string();
            if !o.status.success() || stderr.contains("panicked") {
                CaseReport::fail(s, "cli-crash", json!({"input": s, "status": format!("{:?}", o.status), "stderr": stderr}))
            } else {
                CaseReport::pass(format!("cli:{}", s), true, vec!["through-binary"])
            }
        }
    }
}

pub fn profile() -> &'static str {
    if cfg!(debug_assertions) {
        "debug-assertions"
    } else {
        "release"
    }
}

/// Two or three quantities at the special points of the unit system (absolute zero on every scale, zero,
/// one, the freezing point, a tiny and a huge magnitude) joined by operators, optionally cast: the
/// neighbourhoods where a conversion turns a non-zero literal into zero or a zero into something else.
fn special_quantities() -> impl Strategy<Value = String> {
    let q = prop_oneof![
        Just("-273.15 °C"), Just("-459.67 °F"), Just("0 K"), Just("0 °C"), Just("32 °F"), Just("0 °F"), Just("-273.15 celsius"), Just("273.15 K"),
        Just("0 m"), Just("-0 kg"), Just("0.0 s"), Just("1 K"), Just("1 m"), Just("3 J"), Just("1 kg"), Just("2 N"), Just("1e-300 m"), Just("1e300 s"),
        Just("0"), Just("1"), Just("-1"), Just("0%"), Just("-273.15"), Just("(0 K)"), Just("(-273.15 °C to K)"), Just("(1 - 1) m"),
    ];
    let op = prop_oneof![3 => Just(" / "), 2 => Just(" * "), 1 => Just(" + "), 1 => Just(" - "), 1 => Just("/"), 1 => Just(" ^ ")];
    let cast = prop::option::weighted(0.3, prop_oneof![Just("K"), Just("°C"), Just("°F"), Just("kg/K"), Just("1/K"), Just("m/K"), Just("J/°C"), Just("m"), Just("K^-1")]);
    (q.clone(), prop::collection::vec((op, q), 1..=3), cast, prop::option::weighted(0.2, -3i32..=3)).prop_map(|(a, rest, cast, p)| {
        let mut s = a.to_string();
        for (o, b) in rest {
            if o == " ^ " {
                s = format!("({}) ^ {}", s, p.unwrap_or(-1));
            } else {
                s.push_str(o);
                s.push_str(b);
            }
        }
        if let Some(c) = cast {
            s.push_str(" to ");
            s.push_str(c);
        }
        s
    })
}

/// Calls of every built-in function, nested up to three deep, on arguments at the edges of the numeric types
/// they convert to: magnitudes around the largest f64 (sin/cos go through floating point), digits arguments
/// and exponents that do not fit an i32 (so the call fails with a bad-argument error somewhere inside), zero,
/// tiny values, values with units, wrong arities.
fn builtin_calls() -> impl Strategy<Value = String> {
    // known names, near misses of them, and names over the whole word alphabet (letters, digits, the degree sign,
    // the apostrophe): whatever the tool says about an unknown function, it says it without falling over
    let name = || {
        prop_oneof![
            6 => prop_oneof![Just("sin"), Just("cos"), Just("round"), Just("floor"), Just("ceil"), Just("nosuch")].prop_map(|s| s.to_string()),
            2 => prop_oneof![Just("roun"), Just("rounds"), Just("flor"), Just("ciel"), Just("Sin"), Just("COS"), Just("°C"), Just("c°s"), Just("f°o"), Just("°"), Just("a°"), Just("°°°"), Just("it's"), Just("'"), Just("r°und"), Just("to"), Just("m"), Just("km")].prop_map(|s| s.to_string()),
            2 => "[a-zA-Z0-9°']{1,9}".prop_map(|s| s),
        ]
    };
    let edge = prop_oneof![
        Just("0"), Just("-0.0"), Just("1e308"), Just("1.8e308"), Just("1e309"), Just("-1e400"), Just("1e999"), Just("1e-999"), Just("-1e-400"), Just("0.5"),
        Just("1e200 * 1e200"), Just("2 ^ 64"), Just("1 / 3"), Just("3 m"), Just("1e309 km"), Just("-273.15 °C"), Just("100%"),
        Just("(1 m) ^ 1e10"), Just("(2 s) ^ 2147483648"), Just("(1 kg) ^ -1e10"),
    ];
    let digits = prop_oneof![Just("1e10"), Just("3e9"), Just("2147483648"), Just("-2147483649"), Just("1e400"), Just("2"), Just("-2"), Just("0.5"), Just("1 m"), Just("1e-5")];
    let leaf = (name(), edge, prop::option::weighted(0.5, digits)).prop_map(|(f, x, d)| match d {
        Some(d) => format!("{}({}, {})", f, x, d),
        None => format!("{}({})", f, x),
    });
    leaf.prop_recursive(3, 8, 2, move |inner| {
        prop_oneof![
            3 => (name(), inner.clone()).prop_map(|(f, a)| format!("{}({})", f, a)),
            2 => (name(), inner.clone(), prop_oneof![Just("1"), Just("-2"), Just("1e10"), Just("2147483648")]).prop_map(|(f, a, d)| format!("{}({}, {})", f, a, d)),
            1 => (inner.clone(), prop_oneof![Just(" + "), Just(" * "), Just(" / ")], inner.clone()).prop_map(|(a, o, b)| format!("{}{}{}", a, o, b)),
            1 => (name(), inner.clone(), inner.clone()).prop_map(|(f, a, b)| format!("{}({}, {})", f, a, b)),
        ]
    })
}

/// Towers of two-digit powers over a quantity whose value is 0, 1 or -1 (so the exact answer stays tiny
/// whatever the exponents are): `(((1 m^12)^-34)^56)^78`.  Not sanitised — the unit's power may leave i32.
fn power_tower() -> impl Strategy<Value = String> {
    let v = prop_oneof![Just("1"), Just("-1"), Just("0"), Just("1.0"), Just("1e0"), Just("100%")];
    // unprefixed SI base units only: a unit with a scale factor or prefix would make the exact value a
    // number with hundreds of thousands of digits (a resource test, not a crash test)
    const BASE: [&str; 8] = ["m", "s", "A", "K", "mol", "cd", "B", "kg"];
    (v, any::<u16>(), prop::option::weighted(0.7, -99i32..=99), prop::collection::vec((-99i32..=99, prop_oneof![Just("^"), Just(" ^ "), Just("**"), Just(" ** ")]), 1..=7), any::<bool>()).prop_map(move |(v, wi, p0, levels, tail)| {
        let word = BASE[pick_idx(wi, BASE.len())].to_string();
        let mut e = match p0 {
            Some(p) => format!("{} {}^{}", v, word, p),
            None => format!("{} {}", v, word),
        };
        for (p, op) in &levels {
            e = format!("({}){}{}", e, op, p);
        }
        if tail {
            e = format!("{} * 1 {}", e, word);
        }
        e
    })
}

/// Two power towers over units without a scale factor, joined by an operator: the unit powers of the
/// operands are each representable, their sum, difference or negation may not be.
fn tower_products() -> impl Strategy<Value = String> {
    // base units only: with a derived unit the re-derivation loop in Compound::mul walks |power| steps
    // (seconds for powers near 2^31 — a resource test), and the overflow would be the same root cause
    const UNITS: [&str; 8] = ["m", "s", "A", "K", "mol", "cd", "B", "kg"];
    let tower = || {
        (prop_oneof![Just("1"), Just("-1"), Just("0"), Just("1.0")], any::<u16>(), -99i32..=99, prop::collection::vec(prop_oneof![3 => 2i32..=99, 1 => -99i32..=-2], 2..=6), any::<bool>()).prop_map(|(v, ui, p0, levels, parens)| {
            let u = UNITS[pick_idx(ui, UNITS.len())];
            let mut e = if parens { format!("({} {}^{})", v, u, p0) } else { format!("{}{} ", v, u) };
            for p in &levels {
                e = format!("{}^{}", e.trim_end(), p);
                if !parens {
                    e.push(' ');
                }
            }
            e.trim_end().to_string()
        })
    };
    (tower(), prop_oneof![Just(" * "), Just(" / "), Just(" + "), Just(" - ")], tower(), any::<bool>()).prop_map(|(a, op, b, same)| if same { format!("{}{}{}", a, op, a) } else { format!("{}{}{}", a, op, b) })
}

pub fn run_check(ctx: &Ctx, child: bool) {
    ctx.set_rule("inputs: arbitrary Unicode strings, printable-ASCII noise, token soups of up to 40 tokens (numbers, vocabulary words, operators, parentheses, braces, commas, %, to, function names, fact words, multi-byte and unknown characters, Unicode blanks) well-formed expressions with one or two token mutations, calls of every built-in function nested up to three deep on arguments at the edges of f64 and i32 (1e308, 1e309, 1e999, digits and exponents beyond 2^31), products/quotients/sums/casts of quantities at the special points of the unit system (absolute zero on every scale, zero, tiny and huge magnitudes), towers of up to seven two-digit powers over a quantity of value 0, 1 or -1 (the unit's power may leave i32; the value stays tiny) and sums/products/quotients of two such towers; every input is passed through a sanitiser that enforces the stated bounds (power operator followed by an integer of <= 2 digits with product <= 1000 — an operator with nothing that could be a value behind it is left dangling as written — <= 2 digits after a comma, literal exponents of <= 3 digits); oracle: no panic, parse succeeds, the result sequence ends, every value displays, every error has a message and a range inside the input on char boundaries; run in a debug-assertion build and in a release build, plus a sample through the real binary; non-trivial = >= 3 tokens and at least one result that is not a plain syntax error; distinct by input text (per profile)");
    ctx.assume("a watchdog (30 s per case) turns a hang into exit 2 (inconclusive), never a violation");
    let corpus: Vec<(String, StrCase)> = load_corpus("C11");
    let cases: Vec<StrCase> = corpus.into_iter().map(|c| c.1).collect();
    ctx.run_list("corpus", &cases, |c| check_str(shared_db(), &c.input), |c| to_json(c));
    let n = ctx.tier.pick(200_000u64, 4_000_000);
    ctx.run_gen("soup", || soup().prop_map(|input| StrCase { input }), n, |c| check_str(shared_db(), &c.input), |c| to_json(c));
    ctx.run_gen("mutated-well-formed", || mutated().prop_map(|input| StrCase { input }), n / 2, |c| check_str(shared_db(), &c.input), |c| to_json(c));
    ctx.run_gen("special-quantities", || special_quantities().prop_map(|input| StrCase { input }), n / 8, |c| check_str(shared_db(), &c.input), |c| to_json(c));
    ctx.run_gen("builtin-calls-at-type-edges", || builtin_calls().prop_map(|input| StrCase { input }), n / 8, |c| check_str(shared_db(), &c.input), |c| to_json(c));
    ctx.run_gen("unit-power-towers", || power_tower().prop_map(|input| StrCase { input }), n / 8, |c| check_str(shared_db(), &c.input), |c| to_json(c));
    ctx.run_gen("unit-power-tower-products", || tower_products().prop_map(|input| StrCase { input }), n / 8, |c| check_str(shared_db(), &c.input), |c| to_json(c));
    ctx.run_gen("ascii-noise", || "[ -~]{0,40}".prop_map(|s| StrCase { input: sanitize(&s) }), n / 4, |c| check_str(shared_db(), &c.input), |c| to_json(c));
    ctx.run_gen("unicode", || "\\PC{0,30}".prop_map(|s| StrCase { input: sanitize(&s) }), n / 8, |c| check_str(shared_db(), &c.input), |c| to_json(c));
    ctx.run_gen("any-string", || any::<String>().prop_map(|s| StrCase { input: sanitize(&s) }), n / 8, |c| check_str(shared_db(), &c.input), |c| to_json(c));
    if !child {
        // sample through the real binary (built with debug assertions)
        let xdg = format!("{}/build/xdg/C11-{}", crate::runner::verif_root(), std::process::id());
        let _ = std::fs::create_dir_all(&xdg);
        // build the on-disk index once so the parallel spawns only reopen it
        let _ = cli_check(&StrCase { input: "1".into() });
        let m = ctx.tier.pick(400u64, 6_000);
        ctx.run_gen("binary-soup", || prop_oneof![soup(), mutated()].prop_map(|input| StrCase { input }), m, cli_check, |c| to_json(c));
        let _ = std::fs::remove_dir_all(&xdg);
    }
    ctx.put("profile", json!(profile()));
    let _ = Tier::Quick;
}

pub fn replay(ctx: &Ctx, case: &Value) {
    let c: StrCase = serde_json::from_value(case.clone()).expect("replay file holds {input}");
    ctx.run_list("replay", &[c], |c| check_str(shared_db(), &c.input), |c| to_json(c));
}
