//! C09 Temperature scales convert by their defining affine formulas.

use super::common::*;
use crate::ast::{Lit, USpell, Word};
use crate::gen::{self, words, LitCfg};
use crate::runner::{pick_idx, CaseReport, Ctx};
use crate::tool::{ratio, rpow, run, shared_db, Mirror, R};
use crate::units_ref::vocab;
use num::{BigRational, One};
use proptest::prelude::*;
use serde::{Deserialize, Serialize};
use serde_json::{json, Value};

#[derive(Clone, Copy, Debug, PartialEq, Eq, Serialize, Deserialize)]
pub enum Scale {
    K,
    C,
    F,
}

impl Scale {
    fn variant(self) -> &'static str {
        match self {
            Scale::K => "Kelvin",
            Scale::C => "Celsius",
            Scale::F => "Fahrenheit",
        }
    }
    fn to_kelvin(self, x: &BigRational) -> BigRational {
        match self {
            Scale::K => x.clone(),
            // K = C + 273.15
            Scale::C => x + ratio(27315, 100),
            // C = (F - 32) * 5/9
            Scale::F => (x - ratio(32, 1)) * ratio(5, 9) + ratio(27315, 100),
        }
    }
    fn from_kelvin(self, k: &BigRational) -> BigRational {
        match self {
            Scale::K => k.clone(),
            Scale::C => k - ratio(27315, 100),
            Scale::F => (k - ratio(27315, 100)) * ratio(9, 5) + ratio(32, 1),
        }
    }
    /// Size of one degree in kelvin (interval).
    fn degree(self) -> BigRational {
        match self {
            Scale::F => ratio(5, 9),
            _ => ratio(1, 1),
        }
    }
}

#[derive(Clone, Debug, Serialize, Deserialize)]
#[serde(tag = "kind", rename_all = "snake_case")]
pub enum Case {
    /// `x S0 to S1 to ... Sn`, expected value in Sn and the unit Sn alone.
    Chain {
        query: String,
        expect: String,
        unit: String,
        hops: usize,
        /// decimal prefix of the last scale as written (0 = none)
        #[serde(default)]
        prefix: i32,
        #[serde(default)]
        prefixed: bool,
    },
    /// `x S0 + y S1` against `x S0 + (y S1 to S0)`: the conversion a sum or difference performs on its right
    /// operand is the same conversion `to` performs.
    Implicit { direct: String, explicit: String },
    /// Several lone-scale conversions as the root expressions of ONE query: each as if it stood alone.
    Several { query: String, expects: Vec<String>, units: Vec<(String, i32)> },
    /// A product or quotient with a quantity on an offset scale among its operands: the result quantity has the
    /// scale multiplied with other units (or squared, or inverted), so it is refused or equals — in base SI
    /// value and dimension — the same expression with every degree read as an interval (`twin`: x °C written
    /// as x K, x °F as (x * 5 / 9) K).
    Product {
        query: String,
        twin: String,
        /// the same expression with every lone scale operand read as an absolute temperature (x °C as (x + 273.15) K);
        /// only when every offset-scale operand stands alone with power one — then a result that carries no offset
        /// scale may also equal this reading
        #[serde(default)]
        absolute: Option<String>,
    },
    /// Offset scale not alone: result must be an error or exactly the interval value.
    NotAlone { query: String, interval: String, shift_examples: Vec<String> },
}

fn spellings(s: Scale) -> Vec<&'static str> {
    match s {
        Scale::K => vec!["K", "kelvin", "kelvins"],
        Scale::C => vec!["°C", "celsius"],
        Scale::F => vec!["°F", "fahrenheit"],
    }
}

/// A scale spelling with its decimal prefix exponent: (scale, text, exponent).
fn scale() -> impl Strategy<Value = (Scale, String, i32)> {
    (prop_oneof![Just(Scale::K), Just(Scale::C), Just(Scale::F)], any::<u16>(), prop::bool::weighted(0.25)).prop_map(|(s, i, prefixed)| {
        if prefixed {
            // any prefixed word of the vocabulary for this scale that the tool reads as declared
            let v = vocab();
            let ui = v.by_variant[s.variant()];
            let w = words();
            let cands: Vec<&Word> = w.all.iter().filter(|x| x.safe && x.word.unit == ui && x.word.prefix != 0).map(|x| &x.word).collect();
            if !cands.is_empty() {
                let c = cands[pick_idx(i, cands.len())];
                return (s, c.text.clone(), c.prefix);
            }
        }
        let sp = spellings(s);
        (s, sp[pick_idx(i, sp.len())].to_string(), 0)
    })
}

fn lit() -> impl Strategy<Value = Lit> {
    prop_oneof![
        3 => gen::small_lit(),
        3 => gen::lit(LitCfg { max_int_digits: 5, max_frac_digits: 4, max_exp: 3, allow_percent: false, allow_neg: true, allow_plus: false, allow_exotic: false }),
        1 => prop_oneof![Just("-273.15"), Just("-459.67"), Just("0"), Just("32"), Just("100"), Just("212"), Just("-40"), Just("273.15"), Just("1e30"), Just("-1e-30")].prop_map(Lit::from_text),
    ]
    .prop_filter("no percent", |l| !l.text.ends_with('%'))
}

fn chain() -> impl Strategy<Value = Case> {
    (lit(), prop::collection::vec(scale(), 2..=5)).prop_map(|(x, scales)| {
        let mut q = format!("{} {}", x.text, scales[0].1);
        // a prefixed degree is exactly its power of ten degrees
        let k = scales[0].0.to_kelvin(&(&x.value * crate::tool::pow10(scales[0].2 as i64)));
        for s in &scales[1..] {
            q.push_str(&format!(" to {}", s.1));
        }
        let last = scales.last().unwrap();
        let out = last.0.from_kelvin(&k) / crate::tool::pow10(last.2 as i64);
        Case::Chain { query: q, expect: rat(&out), unit: last.0.variant().to_string(), hops: scales.len() - 1, prefix: last.2, prefixed: scales.iter().any(|s| s.2 != 0) }
    })
}

/// Other proportional single units to combine with (name, scale per observed table, key).
fn other_unit() -> impl Strategy<Value = Word> {
    any::<u16>().prop_map(|i| {
        let w = words();
        let v = vocab();
        let pool: Vec<&Word> = w.all.iter().filter(|x| x.safe && x.word.prefix == 0 && !v.units[x.word.unit].offset && v.units[x.word.unit].dim[4] == 0).map(|x| &x.word).collect();
        pool[pick_idx(i, pool.len())].clone()
    })
}

/// Two different proportional units of the same dimension (m / ft, s / min, kg / lb ...): their quotient is a
/// pure number, so `<scale>*u1/u2` has the dimension of a temperature although the scale is not alone.
fn ratio_pair() -> impl Strategy<Value = (Word, Word)> {
    (any::<u16>(), any::<u16>()).prop_map(|(i, j)| {
        let w = words();
        let v = vocab();
        let pool: Vec<&Word> = w.all.iter().filter(|x| x.safe && x.word.prefix == 0 && !v.units[x.word.unit].offset && v.units[x.word.unit].dim[4] == 0).map(|x| &x.word).collect();
        let a = pool[pick_idx(i, pool.len())];
        let same: Vec<&&Word> = pool.iter().filter(|b| b.unit != a.unit && v.units[b.unit].dim == v.units[a.unit].dim).collect();
        if same.is_empty() {
            // fall back to a pair that always exists
            let m = pool.iter().find(|x| x.text == "m").unwrap();
            let ft = pool.iter().find(|x| x.text == "ft").unwrap();
            return ((*m).clone(), (*ft).clone());
        }
        (a.clone(), (**same[pick_idx(j, same.len())]).clone())
    })
}

/// Source and target of different shape: a lone scale on one side, on the other a scale times a
/// dimensionless ratio of two units.  Dimensions agree, so the cast is not refused for that reason; it must be
/// refused because of the scale, or convert the degree as an interval on BOTH sides — a result in which the lone
/// side got its zero point added and the other did not is the violation.
fn mixed_shape() -> impl Strategy<Value = Case> {
    (lit(), scale(), scale(), ratio_pair(), any::<bool>(), any::<bool>())
        // the scale inside the compound must be an offset scale (a lone °C against `K*s/min` is an ordinary
        // affine conversion of a lone scale into kelvin and then a proportional one: nothing to refuse)
        .prop_filter("the scale inside the compound must be an offset scale", |(_, a, b, _, compound_is_target, _)| if *compound_is_target { b.0 != Scale::K } else { a.0 != Scale::K })
        .prop_map(|(x, a, b, (u1, u2), compound_is_target, star)| {
            let j = if star { "*" } else { " " };
            let v = vocab();
            let t = &observed().table;
            let s1 = t.get(&v.units[u1.unit].key()).cloned().unwrap_or_else(BigRational::one);
            let s2 = t.get(&v.units[u2.unit].key()).cloned().unwrap_or_else(BigRational::one);
            let da = a.0.degree() * crate::tool::pow10(a.2 as i64);
            let db = b.0.degree() * crate::tool::pow10(b.2 as i64);
            let ratio_size = &s1 / &s2;
            let (q, interval) = if compound_is_target {
                (format!("{} {} to {}{}{}/{}", x.text, a.1, b.1, j, u1.text, u2.text), &x.value * &da / (&db * &ratio_size))
            } else {
                (format!("{} {}{}{}/{} to {}", x.text, a.1, j, u1.text, u2.text, b.1), &x.value * &da * &ratio_size / &db)
            };
            let shifts = vec![rat(&(&interval + ratio(27315, 100))), rat(&(&interval - ratio(27315, 100)))];
            Case::NotAlone { query: q, interval: rat(&interval), shift_examples: shifts }
        })
}

fn not_alone() -> impl Strategy<Value = Case> {
    (lit(), scale(), scale(), prop_oneof![Just(1i32), Just(-1), Just(2), Just(-2), Just(3), Just(-3)], prop::collection::vec((other_unit(), prop_oneof![Just(1i32), Just(-1), Just(2)]), 0..=2), any::<bool>())
        .prop_filter("an offset scale must be involved and not alone", |(_, a, b, p, others, _)| (a.0 != Scale::K || b.0 != Scale::K) && (*p != 1 || !others.is_empty()))
        .prop_map(|(x, a, b, p, others, temp_first)| {
            // distinct other units
            let mut seen = std::collections::BTreeSet::new();
            let others: Vec<(Word, i32)> = others.into_iter().filter(|(w, _)| seen.insert(w.unit)).collect();
            let spell = |t: &str| {
                let tf = if p == 1 { t.to_string() } else { format!("{}^{}", t, p) };
                let mut parts: Vec<String> = others.iter().map(|(w, q)| if *q == 1 { w.text.clone() } else { format!("{}^{}", w.text, q) }).collect();
                if temp_first {
                    parts.insert(0, tf);
                } else {
                    parts.push(tf);
                }
                parts.join("*")
            };
            // the same shapes as the two operands of a sum or a difference (the right operand is converted
            // into the unit of the left one): a flag taken from the literal keeps the strategy's shape
            let as_sum = x.text.len() % 3 == 0;
            let q = if as_sum { format!("0 {} + {} {}", spell(&b.1), x.text, spell(&a.1)) } else { format!("{} {} to {}", x.text, spell(&a.1), spell(&b.1)) };
            // interval conversion: only the degree size (and its prefix) matters, the other units are identical on both sides
            let da = a.0.degree() * crate::tool::pow10(a.2 as i64);
            let db = b.0.degree() * crate::tool::pow10(b.2 as i64);
            let f = rpow(&(da / db), p as i64).unwrap();
            let interval = &x.value * &f;
            // values that would result from adding a zero-point offset somewhere (for the report)
            let shifts = vec![rat(&(&interval + ratio(27315, 100))), rat(&(&interval - ratio(27315, 100))), rat(&(&interval + ratio(45967, 100)))];
            Case::NotAlone { query: q, interval: rat(&interval), shift_examples: shifts }
        })
}

/// Products and quotients of two or three parenthesised quantities, at least one on an offset scale.
fn product() -> impl Strategy<Value = Case> {
    let operand = prop_oneof![
        3 => (gen::small_lit(), scale()).prop_map(|(x, s)| {
            let twin = format!("({}{} * 1 K)", x.text, degree_factor(s.0, s.2, false));
            let k = s.0.to_kelvin(&(&x.value * crate::tool::pow10(s.2 as i64)));
            let abs = format!("(({}) * 1 K)", rat(&k).replace('/', " / "));
            (format!("({} {})", x.text, s.1), twin, s.0 != Scale::K, Some(abs))
        }),
        2 => (gen::small_lit(), other_unit()).prop_map(|(x, w)| {
            let t = format!("({} {})", x.text, w.text);
            (t.clone(), t.clone(), false, Some(t))
        }),
        1 => (gen::small_lit(), scale(), other_unit(), any::<bool>()).prop_map(|(x, s, w, over)| {
            let op = if over { "/" } else { "*" };
            let twin = format!("({}{} * 1 {}{}K)", x.text, degree_factor(s.0, s.2, over), w.text, op);
            let off = s.0 != Scale::K;
            let abs = if off { None } else { Some(twin.clone()) };
            (format!("({} {}{}{})", x.text, w.text, op, s.1), twin, off, abs)
        }),
    ];
    (prop::collection::vec((operand, any::<bool>()), 2..=3), any::<bool>())
        .prop_filter("an offset scale among the operands", |(v, _)| v.iter().any(|((_, _, off, _), _)| *off))
        .prop_map(|(v, right_nested)| {
            let join = |pick: &dyn Fn(&(String, String, bool, Option<String>)) -> String| {
                let parts: Vec<String> = v.iter().map(|(o, _)| pick(o)).collect();
                let ops: Vec<&str> = v.iter().skip(1).map(|(_, d)| if *d { "/" } else { "*" }).collect();
                if parts.len() == 3 && right_nested {
                    format!("{} {} ({} {} {})", parts[0], ops[0], parts[1], ops[1], parts[2])
                } else {
                    let mut q = parts[0].clone();
                    for (p, o) in parts[1..].iter().zip(ops) {
                        q.push_str(&format!(" {} {}", o, p));
                    }
                    q
                }
            };
            let absolute = if v.iter().all(|(o, _)| o.3.is_some()) { Some(join(&|o| o.3.clone().unwrap())) } else { None };
            Case::Product { query: join(&|o| o.0.clone()), twin: join(&|o| o.1.clone()), absolute }
        })
}

/// The size of one (prefixed) degree in kelvin as a chain of factors behind a literal: ` * 5 / 9 * 1e-3`;
/// turned over when the degree stands in a denominator.
fn degree_factor(s: Scale, prefix: i32, inverted: bool) -> String {
    let mut t = String::new();
    if s == Scale::F {
        t.push_str(if inverted { " * 9 / 5" } else { " * 5 / 9" });
    }
    if prefix != 0 {
        t.push_str(&format!(" * 1e{}", if inverted { -prefix } else { prefix }));
    }
    t
}

/// Two to four conversions in one query, mostly between the same two scales with different magnitudes
/// (what one conversion leaves behind in the query must not colour the next).
fn several() -> impl Strategy<Value = Case> {
    (scale(), scale(), prop::collection::vec((lit(), any::<bool>()), 2..=4)).prop_map(|(a, b, xs)| {
        let mut parts = Vec::new();
        let mut expects = Vec::new();
        let mut units = Vec::new();
        for (x, reversed) in xs {
            let (from, to) = if reversed { (&b, &a) } else { (&a, &b) };
            let k = from.0.to_kelvin(&(&x.value * crate::tool::pow10(from.2 as i64)));
            let out = to.0.from_kelvin(&k) / crate::tool::pow10(to.2 as i64);
            parts.push(format!("({} {} to {})", x.text, from.1, to.1));
            expects.push(rat(&out));
            units.push((to.0.variant().to_string(), to.2));
        }
        Case::Several { query: parts.join(" "), expects, units }
    })
}

fn implicit() -> impl Strategy<Value = Case> {
    (lit(), lit(), scale(), scale(), any::<bool>()).prop_map(|(x, y, a, b, minus)| {
        let op = if minus { "-" } else { "+" };
        Case::Implicit { direct: format!("{} {} {} {} {}", x.text, a.1, op, y.text, b.1), explicit: format!("{} {} {} ({} {} to {})", x.text, a.1, op, y.text, b.1, a.1) }
    })
}

fn check(c: &Case) -> CaseReport {
    let db = shared_db();
    // one query in four is evaluated with the describe option on (an option that must not change an answer)
    let run = |db: &anything::Db, q: &str| -> Result<Vec<R>, String> {
        let h = q.bytes().fold(0xcbf29ce484222325u64, |h, b| (h ^ b as u64).wrapping_mul(0x100000001b3));
        if (h >> 7) % 4 == 0 {
            crate::tool::run_full(db, q, true).map(|r| r.results)
        } else {
            run(db, q)
        }
    };
    match c {
        Case::Implicit { direct, explicit } => {
            let (r1, r2) = match (run(db, direct), run(db, explicit)) {
                (Ok(a), Ok(b)) => (a, b),
                (Err(p), _) | (_, Err(p)) => return CaseReport::fail(direct, "panic", json!({"query": direct, "panic": p})),
            };
            let same = r1.len() == 1
                && r2.len() == 1
                && match (&r1[0], &r2[0]) {
                    (R::Ok(v), R::Ok(w)) => v.value == w.value && v.unit == w.unit,
                    (R::Err { .. }, R::Err { .. }) => true,
                    _ => false,
                };
            if same {
                CaseReport::pass(direct, true, vec!["implicit-conversion-in-a-sum"])
            } else {
                CaseReport::fail(direct, "implicit-conversion-differs-from-explicit", json!({"direct": direct, "got": results_json(&r1), "explicit": explicit, "got_explicit": results_json(&r2)}))
            }
        }
        Case::Several { query, expects, units } => {
            let rs = match run(db, query) {
                Ok(r) => r,
                Err(p) => return CaseReport::fail(query, "panic", json!({"query": query, "panic": p})),
            };
            if rs.len() != expects.len() {
                return CaseReport::fail(query, "result-count", json!({"query": query, "got": results_json(&rs), "expected": expects}));
            }
            let v = vocab();
            for (i, r) in rs.iter().enumerate() {
                let mut want_unit = Mirror::new();
                want_unit.insert(v.unit(&units[i].0).key(), (1, units[i].1));
                match r {
                    R::Ok(val) if val.unit == want_unit && val.value == parse_rat(&expects[i]) => {}
                    _ => return CaseReport::fail(query, "conversion-differs-next-to-another-in-one-query", json!({"query": query, "result": i, "got": results_json(&rs), "expected": expects})),
                }
            }
            CaseReport::pass(query, true, vec!["several-conversions-in-one-query"])
        }
        Case::Chain { query, expect, unit, hops, prefix, prefixed } => {
            let rs = match run(db, query) {
                Ok(r) => r,
                Err(p) => return CaseReport::fail(query, "panic", json!({"query": query, "panic": p})),
            };
            let v = vocab();
            let mut want_unit = Mirror::new();
            want_unit.insert(v.unit(unit).key(), (1, *prefix));
            match rs.as_slice() {
                [R::Ok(val)] => {
                    if val.unit != want_unit {
                        return CaseReport::fail(query, "chain-wrong-unit", json!({"query": query, "got": rs[0].brief(), "expected_unit": unit}));
                    }
                    if val.value != parse_rat(expect) {
                        return CaseReport::fail(query, "chain-wrong-value", json!({"query": query, "got": rs[0].brief(), "expected": expect}));
                    }
                    let mut classes = vec![];
                    if *hops >= 2 {
                        classes.push("chain>=2");
                    }
                    if *hops >= 3 {
                        classes.push("chain>=3");
                    }
                    if *prefixed {
                        classes.push("prefixed-scale");
                    }
                    CaseReport::pass(query, *hops >= 2, classes)
                }
                _ => CaseReport::fail(query, "chain-not-a-value", json!({"query": query, "got": results_json(&rs), "expected": expect})),
            }
        }
        Case::Product { query, twin, absolute } => {
            let ev = |q: &str| run(db, q).map_err(|p| format!("panic: {}", p));
            let (rs, ts) = match (ev(query), ev(twin)) {
                (Ok(a), Ok(b)) => (a, b),
                (Err(p), _) | (_, Err(p)) => return CaseReport::fail(query, "panic", json!({"query": query, "twin": twin, "panic": p})),
            };
            let table = &observed().table;
            match (rs.as_slice(), ts.as_slice()) {
                ([R::Err { .. }], _) => CaseReport::pass(query, true, vec!["product-with-a-scale", "refused"]),
                ([R::Ok(val)], [R::Ok(tw)]) => match (si_of(val, table), si_of(tw, table)) {
                    (Some((v, vd)), Some((t, td))) => {
                        // does the result still carry an offset scale?
                        let carries_scale = val.unit.keys().any(|k| matches!(k, crate::tool::UKey::Derived(id) if vocab().units.iter().any(|u| u.offset && u.id == Some(*id))));
                        let abs_ok = || match absolute {
                            Some(a) if !carries_scale => match ev(a).ok().as_deref() {
                                Some([R::Ok(av)]) => si_of(av, table).map(|(x, d)| x == v && d == vd).unwrap_or(false),
                                _ => false,
                            },
                            _ => false,
                        };
                        if v == t && vd == td {
                            CaseReport::pass(query, true, vec!["product-with-a-scale", "interval"])
                        } else if abs_ok() {
                            CaseReport::pass(query, true, vec!["product-with-a-scale", "absolute-temperatures(result without a scale)"])
                        } else {
                            CaseReport::fail(query, "offset-applied-in-a-product", json!({"query": query, "got": rs[0].brief(), "got_si": rat(&v), "twin": twin, "twin_si": rat(&t), "twin_result": ts[0].brief()}))
                        }
                    }
                    _ => CaseReport::fail(query, "unknown-unit", json!({"query": query, "got": rs[0].brief(), "twin": ts[0].brief()})),
                },
                // the interval twin has no value (division by zero): the product must not have one either
                ([R::Ok(_)], [R::Err { .. }]) => CaseReport::fail(query, "value-where-the-interval-reading-has-none", json!({"query": query, "got": rs[0].brief(), "twin": twin, "twin_result": ts[0].brief()})),
                _ => CaseReport::fail(query, "result-count", json!({"query": query, "got": results_json(&rs), "twin": results_json(&ts)})),
            }
        }
        Case::NotAlone { query, interval, .. } => {
            let rs = match run(db, query) {
                Ok(r) => r,
                Err(p) => return CaseReport::fail(query, "panic", json!({"query": query, "panic": p})),
            };
            match rs.as_slice() {
                [R::Err { .. }] => CaseReport::pass(query, true, vec!["not-alone", "refused"]),
                [R::Ok(val)] => {
                    if val.value == parse_rat(interval) {
                        CaseReport::pass(query, true, vec!["not-alone", "interval"])
                    } else {
                        CaseReport::fail(query, "offset-applied-to-compound", json!({"query": query, "got": rs[0].brief(), "interval_value": interval, "case": c}))
                    }
                }
                _ => CaseReport::fail(query, "result-count", json!({"query": query, "got": results_json(&rs)})),
            }
        }
    }
}

pub fn run_check(ctx: &Ctx) {
    ctx.set_rule("chains `x S0 to S1 ... to Sn` (n <= 4) over K, °C/celsius, °F/fahrenheit with rational magnitudes (incl. absolute zero, -40, huge and tiny): the result must equal the direct conversion by K = C + 273.15, C = (F - 32)*5/9 exactly and carry the last scale alone; two to four such conversions as the root expressions of one query each give what they give alone; a sum or difference of two lone scales equals the same sum with the right operand converted explicitly; and the not-alone class (scale with power -3..3 other than 1, or multiplied/divided by one or two other units, cast to the same shape over another scale): the result must be an error or exactly the interval conversion; products and quotients of two or three quantities with at least one on an offset scale (alone, or next to another unit): refused, or equal in SI value and dimension to the same expression with every degree read as an interval (x °C as x K, x °F as x*5/9 K); one query in four is evaluated with the describe option on; non-trivial = chain of >=2 hops or not-alone; distinct by query text");
    ctx.assume("a prefixed degree (m°C, kK, millicelsius) is exactly its power of ten degrees of that scale (C03's prefix rule)");
    let corpus: Vec<(String, Case)> = load_corpus("C09");
    let cases: Vec<Case> = corpus.into_iter().map(|c| c.1).collect();
    ctx.run_list("corpus", &cases, check, |c| to_json(c));
    let n = ctx.tier.pick(150_000u64, 3_000_000);
    ctx.run_gen("chains", chain, n, check, |c| to_json(c));
    ctx.run_gen("several-in-one-query", several, n / 4, check, |c| to_json(c));
    ctx.run_gen("implicit-conversion", implicit, n / 4, check, |c| to_json(c));
    ctx.run_gen("products-with-a-scale", product, n / 4, check, |c| to_json(c));
    ctx.run_gen("not-alone", not_alone, n / 2, check, |c| to_json(c));
    ctx.run_gen("not-alone-mixed-shape", mixed_shape, n / 4, check, |c| to_json(c));
    let _ = USpell { factors: vec![], slash: false, star: false, noise: 0, starstar: false };
}

pub fn replay(ctx: &Ctx, case: &Value) {
    let c: Case = serde_json::from_value(case.clone()).expect("replay file holds a C09 case");
    ctx.run_list("replay", &[c], check, |c| to_json(c));
}
