//! C09 Temperature scales convert by their defining affine formulas.

use super::common::*;
use crate::ast::{Lit, USpell, Word};
use crate::gen::{self, words, LitCfg};
use crate::runner::{pick_idx, CaseReport, Ctx};
use crate::tool::{ratio, rpow, run, shared_db, Mirror, R};
use crate::units_ref::vocab;
use num::{BigRational, One};
use proptest::prelude::*;
use serde::{Deserialize, Serialize};
use serde_json::{json, Value};

#[derive(Clone, Copy, Debug, PartialEq, Eq, Serialize, Deserialize)]
pub enum Scale {
    K,
    C,
    F,
}

impl Scale {
    fn variant(self) -> &'static str {
        match self {
            Scale::K => "Kelvin",
            Scale::C => "Celsius",
            Scale::F => "Fahrenheit",
        }
    }
    fn to_kelvin(self, x: &BigRational) -> BigRational {
        match self {
            Scale::K => x.clone(),
            // K = C + 273.15
            Scale::C => x + ratio(27315, 100),
            // C = (F - 32) * 5/9
            Scale::F => (x - ratio(32, 1)) * ratio(5, 9) + ratio(27315, 100),
        }
    }
    fn from_kelvin(self, k: &BigRational) -> BigRational {
        match self {
            Scale::K => k.clone(),
            Scale::C => k - ratio(27315, 100),
            Scale::F => (k - ratio(27315, 100)) * ratio(9, 5) + ratio(32, 1),
        }
    }
    /// Size of one degree in kelvin (interval).
    fn degree(self) -> BigRational {
        match self {
            Scale::F => ratio(5, 9),
            _ => ratio(1, 1),
        }
    }
}

#[derive(Clone, Debug, Serialize, Deserialize)]
#[serde(tag = "kind", rename_all = "snake_case")]
pub enum Case {
    /// `x S0 to S1 to ... Sn`, expected value in Sn and the unit Sn alone.
    Chain {
        query: String,
        expect: String,
        unit: String,
        hops: usize,
        /// decimal prefix of the last scale as written (0 = none)
        #[serde(default)]
        prefix: i32,
        #[serde(default)]
        prefixed: bool,
    },
    /// `x S0 + y S1` against `x S0 + (y S1 to S0)`: the conversion a sum or difference performs on its right
    /// operand is the same conversion `to` performs.
    Implicit { direct: String, explicit: String },
    /// Several lone-scale conversions as the root expressions of ONE query: each as if it stood alone.
    Several { query: String, expects: Vec<String>, units: Vec<(String, i32)> },
    /// Offset scale not alone: result must be an error or exactly the interval value.
    NotAlone { query: String, interval: String, shift_examples: Vec<String> },
}

fn spellings(s: Scale) -> Vec<&'static str> {
    match s {
        Scale::K => vec!["K", "kelvin", "kelvins"],
        Scale::C => vec!["°C", "celsius"],
        Scale::F => vec!["°F", "fahrenheit"],
    }
}

/// A scale spelling with its decimal prefix exponent: (scale, text, exponent).
fn scale() -> impl Strategy<Value = (Scale, String, i32)> {
    (prop_oneof![Just(Scale::K), Just(Scale::C), Just(Scale::F)], any::<u16>(), prop::bool::weighted(0.25)).prop_map(|(s, i, prefixed)| {
        if prefixed {
            // any prefixed word of the vocabulary for this scale that the tool reads as declared
            let v = vocab();
            let ui = v.by_variant[s.variant()];
            let w = words();
            let cands: Vec<&Word> = w.all.iter().filter(|x| x.safe && x.word.unit == ui && x.word.prefix != 0).map(|x| &x.word).collect();
            if !cands.is_empty() {
                let c = cands[pick_idx(i, cands.len())];
                return (s, c.text.clone(), c.prefix);
            }
        }
        let sp = spellings(s);
        (s, sp[pick_idx(i, sp.len())].to_string(), 0)
    })
}

fn lit() -> impl Strategy<Value = Lit> {
    prop_oneof![
        3 => gen::small_lit(),
        3 => gen::lit(LitCfg { max_int_digits: 5, max_frac_digits: 4, max_exp: 3, allow_percent: false, allow_neg: true, allow_plus: false, allow_exotic: false }),
        1 => prop_oneof![Just("-273.15"), Just("-459.67"), Just("0"), Just("32"), Just("100"), Just("212"), Just("-40"), Just("273.15"), Just("1e30"), Just("-1e-30")].prop_map(Lit::from_text),
    ]
    .prop_filter("no percent", |l| !l.text.ends_with('%'))
}

fn chain() -> impl Strategy<Value = Case> {
    (lit(), prop::collection::vec(scale(), 2..=5)).prop_map(|(x, scales)| {
        let mut q = format!("{} {}", x.text, scales[0].1);
        // a prefixed degree is exactly its power of ten degrees
        let k = scales[0].0.to_kelvin(&(&x.value * crate::tool::pow10(scales[0].2 as i64)));
        for s in &scales[1..] {
            q.push_str(&format!(" to {}", s.1));
        }
        let last = scales.last().unwrap();
        let out = last.0.from_kelvin(&k) / crate::tool::pow10(last.2 as i64);
        Case::Chain { query: q, expect: rat(&out), unit: last.0.variant().to_string(), hops: scales.len() - 1, prefix: last.2, prefixed: scales.iter().any(|s| s.2 != 0) }
    })
}

/// Other proportional single units to combine with (name, scale per observed table, key).
fn other_unit() -> impl Strategy<Value = Word> {
    any::<u16>().prop_map(|i| {
        let w = words();
        let v = vocab();
        let pool: Vec<&Word> = w.all.iter().filter(|x| x.safe && x.word.prefix == 0 && !v.units[x.word.unit].offset && v.units[x.word.unit].dim[4] == 0).map(|x| &x.word).collect();
        pool[pick_idx(i, pool.len())].clone()
    })
}

/// Two different proportional units of the same dimension (m / ft, s / min, kg / lb ...): their quotient is a
/// pure number, so `<scale>*u1/u2` has the dimension of a temperature although the scale is not alone.
fn ratio_pair() -> impl Strategy<Value = (Word, Word)> {
    (any::<u16>(), any::<u16>()).prop_map(|(i, j)| {
        let w = words();
        let v = vocab();
        let pool: Vec<&Word> = w.all.iter().filter(|x| x.safe && x.word.prefix == 0 && !v.units[x.word.unit].offset && v.units[x.word.unit].dim[4] == 0).map(|x| &x.word).collect();
        let a = pool[pick_idx(i, pool.len())];
        let same: Vec<&&Word> = pool.iter().filter(|b| b.unit != a.unit && v.units[b.unit].dim == v.units[a.unit].dim).collect();
        if same.is_empty() {
            // fall back to a pair that always exists
            let m = pool.iter().find(|x| x.text == "m").unwrap();
            let ft = pool.iter().find(|x| x.text == "ft").unwrap();
            return ((*m).clone(), (*ft).clone());
        }
        (a.clone(), (**same[pick_idx(j, same.len())]).clone())
    })
}

/// Source and target of different shape: a lone scale on one side, on the other a scale times a
/// dimensionless ratio of two units.  Dimensions agree, so the cast is not refused for that reason; it must be
/// refused because of the scale, or convert the degree as an interval on BOTH sides — a result in which the lone
/// side got its zero point added and the other did not is the violation.
fn mixed_shape() -> impl Strategy<Value = Case> {
    (lit(), scale(), scale(), ratio_pair(), any::<bool>(), any::<bool>())
        // the scale inside the compound must be an offset scale (a lone °C against `K*s/min` is an ordinary
        // affine conversion of a lone scale into kelvin and then a proportional one: nothing to refuse)
        .prop_filter("the scale inside the compound must be an offset scale", |(_, a, b, _, compound_is_target, _)| if *compound_is_target { b.0 != Scale::K } else { a.0 != Scale::K })
        .prop_map(|(x, a, b, (u1, u2), compound_is_target, star)| {
            let j = if star { "*" } else { " " };
            let v = vocab();
            let t = &observed().table;
            let s1 = t.get(&v.units[u1.unit].key()).cloned().unwrap_or_else(BigRational::one);
            let s2 = t.get(&v.units[u2.unit].key()).cloned().unwrap_or_else(BigRational::one);
            let da = a.0.degree() * crate::tool::pow10(a.2 as i64);
            let db = b.0.degree() * crate::tool::pow10(b.2 as i64);
            let ratio_size = &s1 / &s2;
            let (q, interval) = if compound_is_target {
                (format!("{} {} to {}{}{}/{}", x.text, a.1, b.1, j, u1.text, u2.text), &x.value * &da / (&db * &ratio_size))
            } else {
                (format!("{} {}{}{}/{} to {}", x.text, a.1, j, u1.text, u2.text, b.1), &x.value * &da * &ratio_size / &db)
            };
            let shifts = vec![rat(&(&interval + ratio(27315, 100))), rat(&(&interval - ratio(27315, 100)))];
            Case::NotAlone { query: q, interval: rat(&interval), shift_examples: shifts }
        })
}

fn not_alone() -> impl Strategy<Value = Case> {
    (lit(), scale(), scale(), prop_oneof![Just(1i32), Just(-1), Just(2), Just(-2), Just(3), Just(-3)], prop::collection::vec((other_unit(), prop_oneof![Just(1i32), Just(-1), Just(2)]), 0..=2), any::<bool>())
        .prop_filter("an offset scale must be involved and not alone", |(_, a, b, p, others, _)| (a.0 != Scale::K || b.0 != Scale::K) && (*p != 1 || !others.is_empty()))
        .prop_map(|(x, a, b, p, others, temp_first)| {
            // distinct other units
            let mut seen = std::collections::BTreeSet::new();
            let others: Vec<(Word, i32)> = others.into_iter().filter(|(w, _)| seen.insert(w.unit)).collect();
            let spell = |t: &str| {
                let tf = if p == 1 { t.to_string() } else { format!("{}^{}", t, p) };
                let mut parts: Vec<String> = others.iter().map(|(w, q)| if *q == 1 { w.text.clone() } else { format!("{}^{}", w.text, q) }).collect();
                if temp_first {
                    parts.insert(0, tf);
                } else {
                    parts.push(tf);
                }
                parts.join("*")
            };
            let q = format!("{} {} to {}", x.text, spell(&a.1), spell(&b.1));
            // interval conversion: only the degree size (and its prefix) matters, the other units are identical on both sides
            let da = a.0.degree() * crate::tool::pow10(a.2 as i64);
            let db = b.0.degree() * crate::tool::pow10(b.2 as i64);
            let f = rpow(&(da / db), p as i64).unwrap();
            let interval = &x.value * &f;
            // values that would result from adding a zero-point offset somewhere (for the report)
            let shifts = vec![rat(&(&interval + ratio(27315, 100))), rat(&(&interval - ratio(27315, 100))), rat(&(&interval + ratio(45967, 100)))];
            Case::NotAlone { query: q, interval: rat(&interval), shift_examples: shifts }
        })
}

/// Two to four conversions in one query, mostly between the same two scales with different magnitudes
/// (what one conversion leaves behind in the query must not colour the next).
fn several() -> impl Strategy<Value = Case> {
    (scale(), scale(), prop::collection::vec((lit(), any::<bool>()), 2..=4)).prop_map(|(a, b, xs)| {
        let mut parts = Vec::new();
        let mut expects = Vec::new();
        let mut units = Vec::new();
        for (x, reversed) in xs {
            let (from, to) = if reversed { (&b, &a) } else { (&a, &b) };
            let k = from.0.to_kelvin(&(&x.value * crate::tool::pow10(from.2 as i64)));
            let out = to.0.from_kelvin(&k) / crate::tool::pow10(to.2 as i64);
            parts.push(format!("({} {} to {})", x.text, from.1, to.1));
            expects.push(rat(&out));
            units.push((to.0.variant().to_string(), to.2));
        }
        Case::Several { query: parts.join(" "), expects, units }
    })
}

fn implicit() -> impl Strategy<Value = Case> {
    (lit(), lit(), scale(), scale(), any::<bool>()).prop_map(|(x, y, a, b, minus)| {
        let op = if minus { "-" } else { "+" };
        Case::Implicit { direct: format!("{} {} {} {} {}", x.text, a.1, op, y.text, b.1), explicit: format!("{} {} {} ({} {} to {})", x.text, a.1, op, y.text, b.1, a.1) }
    })
}

fn check(c: &Case) -> CaseReport {
    let db = shared_db();
    match c {
        Case::Implicit { direct, explicit } => {
            let (r1, r2) = match (run(db, direct), run(db, explicit)) {
                (Ok(a), Ok(b)) => (a, b),
                (Err(p), _) | (_, Err(p)) => return CaseReport::fail(direct, "panic", json!({"query": direct, "panic": p})),
            };
            let same = r1.len() == 1
                && r2.len() == 1
                && match (&r1[0], &r2[0]) {
                    (R::Ok(v), R::Ok(w)) => v.value == w.value && v.unit == w.unit,
                    (R::Err { .. }, R::Err { .. }) => true,
                    _ => false,
                };
            if same {
                CaseReport::pass(direct, true, vec!["implicit-conversion-in-a-sum"])
            } else {
                CaseReport::fail(direct, "implicit-conversion-differs-from-explicit", json!({"direct": direct, "got": results_json(&r1), "explicit": explicit, "got_explicit": results_json(&r2)}))
            }
        }
        Case::Several { query, expects, units } => {
            let rs = match run(db, query) {
                Ok(r) => r,
                Err(p) => return CaseReport::fail(query, "panic", json!({"query": query, "panic": p})),
            };
            if rs.len() != expects.len() {
                return CaseReport::fail(query, "result-count", json!({"query": query, "got": results_json(&rs), "expected": expects}));
            }
            let v = vocab();
            for (i, r) in rs.iter().enumerate() {
                let mut want_unit = Mirror::new();
                want_unit.insert(v.unit(&units[i].0).key(), (1, units[i].1));
                match r {
                    R::Ok(val) if val.unit == want_unit && val.value == parse_rat(&expects[i]) => {}
                    _ => return CaseReport::fail(query, "conversion-differs-next-to-another-in-one-query", json!({"query": query, "result": i, "got": results_json(&rs), "expected": expects})),
                }
            }
            CaseReport::pass(query, true, vec!["several-conversions-in-one-query"])
        }
        Case::Chain { query, expect, unit, hops, prefix, prefixed } => {
            let rs = match run(db, query) {
                Ok(r) => r,
                Err(p) => return CaseReport::fail(query, "panic", json!({"query": query, "panic": p})),
            };
            let v = vocab();
            let mut want_unit = Mirror::new();
            want_unit.insert(v.unit(unit).key(), (1, *prefix));
            match rs.as_slice() {
                [R::Ok(val)] => {
                    if val.unit != want_unit {
                        return CaseReport::fail(query, "chain-wrong-unit", json!({"query": query, "got": rs[0].brief(), "expected_unit": unit}));
                    }
                    if val.value != parse_rat(expect) {
                        return CaseReport::fail(query, "chain-wrong-value", json!({"query": query, "got": rs[0].brief(), "expected": expect}));
                    }
                    let mut classes = vec![];
                    if *hops >= 2 {
                        classes.push("chain>=2");
                    }
                    if *hops >= 3 {
                        classes.push("chain>=3");
                    }
                    if *prefixed {
                        classes.push("prefixed-scale");
                    }
                    CaseReport::pass(query, *hops >= 2, classes)
                }
                _ => CaseReport::fail(query, "chain-not-a-value", json!({"query": query, "got": results_json(&rs), "expected": expect})),
            }
        }
        Case::NotAlone { query, interval, .. } => {
            let rs = match run(db, query) {
                Ok(r) => r,
                Err(p) => return CaseReport::fail(query, "panic", json!({"query": query, "panic": p})),
            };
            match rs.as_slice() {
                [R::Err { .. }] => CaseReport::pass(query, true, vec!["not-alone", "refused"]),
                [R::Ok(val)] => {
                    if val.value == parse_rat(interval) {
                        CaseReport::pass(query, true, vec!["not-alone", "interval"])
                    } else {
                        CaseReport::fail(query, "offset-applied-to-compound", json!({"query": query, "got": rs[0].brief(), "interval_value": interval, "case": c}))
                    }
                }
                _ => CaseReport::fail(query, "result-count", json!({"query": query, "got": results_json(&rs)})),
            }
        }
    }
}

pub fn run_check(ctx: &Ctx) {
    ctx.set_rule("chains `x S0 to S1 ... to Sn` (n <= 4) over K, °C/celsius, °F/fahrenheit with rational magnitudes (incl. absolute zero, -40, huge and tiny): the result must equal the direct conversion by K = C + 273.15, C = (F - 32)*5/9 exactly and carry the last scale alone; two to four such conversions as the root expressions of one query each give what they give alone; a sum or difference of two lone scales equals the same sum with the right operand converted explicitly; and the not-alone class (scale with power -3..3 other than 1, or multiplied/divided by one or two other units, cast to the same shape over another scale): the result must be an error or exactly the interval conversion; non-trivial = chain of >=2 hops or not-alone; distinct by query text");
    ctx.assume("a prefixed degree (m°C, kK, millicelsius) is exactly its power of ten degrees of that scale (C03's prefix rule)");
    let corpus: Vec<(String, Case)> = load_corpus("C09");
    let cases: Vec<Case> = corpus.into_iter().map(|c| c.1).collect();
    ctx.run_list("corpus", &cases, check, |c| to_json(c));
    let n = ctx.tier.pick(150_000u64, 3_000_000);
    ctx.run_gen("chains", chain, n, check, |c| to_json(c));
    ctx.run_gen("several-in-one-query", several, n / 4, check, |c| to_json(c));
    ctx.run_gen("implicit-conversion", implicit, n / 4, check, |c| to_json(c));
    ctx.run_gen("not-alone", not_alone, n / 2, check, |c| to_json(c));
    ctx.run_gen("not-alone-mixed-shape", mixed_shape, n / 4, check, |c| to_json(c));
    let _ = USpell { factors: vec![], slash: false, star: false, noise: 0, starstar: false };
}

pub fn replay(ctx: &Ctx, case: &Value) {
    let c: Case = serde_json::from_value(case.clone()).expect("replay file holds a C09 case");
    ctx.run_list("replay", &[c], check, |c| to_json(c));
}
