pub mod common;
pub mod c01;
