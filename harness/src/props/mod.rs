pub mod common;
pub mod c01;
pub mod c05;
pub mod c06;
pub mod c07;
pub mod c08;
pub mod c10;
pub mod c12;
