//! C13 Quantity arithmetic obeys the field laws, including looked-up facts.

use super::common::*;
use crate::ast::{render_canonical, Expr, Lit, Op};
use crate::facts::{facts, phrase, typable};
use crate::gen::{self, build_spelling, free_spelling, raw_spell, LitCfg, RawSpell};
use crate::runner::{pick_idx, CaseReport, Ctx};
use crate::tool::{run, shared_db, R};
use crate::units_ref::{mirror_dim, Dim};
use num::Zero;
use proptest::prelude::*;
use serde::{Deserialize, Serialize};
use serde_json::{json, Value};
use std::collections::BTreeMap;
use std::sync::OnceLock;

#[derive(Clone, Debug, Serialize, Deserialize)]
pub struct LawCase {
    pub law: String,
    pub lhs: String,
    pub rhs: String,
    /// "equal" | "zero-with-dim-of-lhs-operand" | "dimensionless-one"
    pub relation: String,
    #[serde(default)]
    pub nontrivial: bool,
    #[serde(default)]
    pub classes: Vec<String>,
}

pub struct FactPool {
    /// typable fact phrases with their dimension
    pub all: Vec<(String, Dim)>,
    /// is the fact's value zero / its unit empty (a plain number)?
    pub zero: Vec<bool>,
    pub plain: Vec<bool>,
    pub by_dim: BTreeMap<Dim, Vec<usize>>,
}

pub fn pool() -> &'static FactPool {
    static P: OnceLock<FactPool> = OnceLock::new();
    P.get_or_init(|| {
        let mut all = Vec::new();
        let mut zero = Vec::new();
        let mut plain = Vec::new();
        let mut seen = std::collections::BTreeSet::new();
        for f in &facts().all {
            if !typable(&f.tokens) {
                continue;
            }
            let p = phrase(&f.tokens);
            if !seen.insert(p.clone()) {
                continue;
            }
            if let Some(d) = mirror_dim(&f.unit) {
                all.push((p, d));
                zero.push(f.value.is_zero());
                plain.push(f.unit.is_empty());
            }
        }
        let mut by_dim: BTreeMap<Dim, Vec<usize>> = BTreeMap::new();
        for (i, (_, d)) in all.iter().enumerate() {
            by_dim.entry(*d).or_default().push(i);
        }
        FactPool { all, zero, plain, by_dim }
    })
}

#[derive(Clone, Debug)]
struct RawOperand {
    fact: Option<u16>,
    lit: Lit,
    raw: RawSpell,
}

fn raw_operand(fact_p: f64) -> impl Strategy<Value = RawOperand> {
    (prop::option::weighted(fact_p, any::<u16>()), lit(), raw_spell(2, 2)).prop_map(|(fact, lit, raw)| RawOperand { fact, lit, raw })
}

fn lit() -> impl Strategy<Value = Lit> {
    prop_oneof![3 => gen::small_lit(), 2 => gen::lit(LitCfg::PLAIN)].prop_filter("no percent", |l| !l.text.ends_with('%'))
}

/// Operand of dimension `dim`: a fact of that dimension if requested and
/// available, else a literal with a spelling built for it.  Plain numbers and
/// dimensionless quantities that carry a unit are never mixed (a plain number
/// adopts the unit of its partner, which is C02's rule, not a field law):
/// `plain` selects which of the two kinds every operand of the triple is.
fn operand_for(raw: &RawOperand, dim: &Dim, plain: bool, fallback: Option<&crate::ast::USpell>) -> (Expr, bool) {
    let p = pool();
    if let Some(i) = raw.fact {
        if let Some(ix) = p.by_dim.get(dim) {
            let ix: Vec<usize> = ix.iter().copied().filter(|k| p.plain[*k] == plain).collect();
            if !ix.is_empty() {
                let k = ix[pick_idx(i, ix.len())];
                return (Expr::Fact(p.all[k].0.clone()), true);
            }
        }
    }
    if plain {
        return (Expr::Num(raw.lit.clone()), false);
    }
    let sp = build_spelling(&raw.raw, dim);
    if sp.factors.is_empty() {
        (Expr::Qty(raw.lit.clone(), fallback.expect("a united operand has a spelling").clone()), false)
    } else {
        (Expr::Qty(raw.lit.clone(), sp), false)
    }
}

#[derive(Clone, Debug)]
pub struct Triple {
    a: Expr,
    b: Expr,
    c: Expr,
    d: Expr,
    facts: usize,
    a_zero: bool,
}

fn triple() -> impl Strategy<Value = Triple> {
    (prop::option::weighted(0.35, any::<u16>()), lit(), free_spelling(2, 2), raw_operand(0.3), raw_operand(0.3), prop::option::weighted(0.25, any::<u16>()), lit(), free_spelling(2, 2)).prop_map(|(af, al, asp, rb, rc, df, dl, dsp)| {
        let p = pool();
        let mut nf = 0;
        let (a, dim, plain, a_zero, asp) = match af {
            Some(i) => {
                let k = pick_idx(i, p.all.len());
                nf += 1;
                (Expr::Fact(p.all[k].0.clone()), p.all[k].1, p.plain[k], p.zero[k], None)
            }
            None => {
                let d = asp.dim();
                (Expr::Qty(al.clone(), asp.clone()), d, false, al.value.is_zero(), Some(asp))
            }
        };
        // a united fact has no spelling of ours: fall back to base units of its dimension
        let fb = asp.clone().or_else(|| {
            let sp = build_spelling(&RawSpell { picks: vec![], residual_words: [0; 8], residual_prefixed: [false; 8], slash: true, star: true, order: 0 }, &dim);
            if sp.factors.is_empty() {
                None
            } else {
                Some(sp)
            }
        });
        // a fact that is dimensionless but carries a unit cannot get partners: treat as plain is wrong, so use its own kind
        let (b, bf) = operand_for(&rb, &dim, plain, fb.as_ref().or(Some(&dsp)));
        let (c, cf) = operand_for(&rc, &dim, plain, fb.as_ref().or(Some(&dsp)));
        nf += bf as usize + cf as usize;
        let d = match df {
            Some(i) => {
                let k = pick_idx(i, p.all.len());
                nf += 1;
                Expr::Fact(p.all[k].0.clone())
            }
            None => Expr::Qty(dl, dsp),
        };
        Triple { a, b, c, d, facts: nf, a_zero }
    })
}

fn par(e: Expr) -> Expr {
    Expr::Paren(Box::new(e))
}

fn laws(t: &Triple) -> Vec<LawCase> {
    let (a, b, c, d) = (&t.a, &t.b, &t.c, &t.d);
    let bin = |o, x: &Expr, y: &Expr| Expr::bin(o, x.clone(), y.clone());
    let mut v: Vec<(&str, Expr, Expr, &str)> = vec![
        ("a+b=b+a", bin(Op::Add, a, b), bin(Op::Add, b, a), "equal"),
        ("a*d=d*a", bin(Op::Mul, a, d), bin(Op::Mul, d, a), "equal"),
        ("(a+b)+c=a+(b+c)", Expr::bin(Op::Add, par(bin(Op::Add, a, b)), c.clone()), Expr::bin(Op::Add, a.clone(), par(bin(Op::Add, b, c))), "equal"),
        ("(a*d)*c=a*(d*c)", Expr::bin(Op::Mul, par(bin(Op::Mul, a, d)), c.clone()), Expr::bin(Op::Mul, a.clone(), par(bin(Op::Mul, d, c))), "equal"),
        ("d*(b+c)=d*b+d*c", Expr::bin(Op::Mul, d.clone(), par(bin(Op::Add, b, c))), Expr::bin(Op::Add, bin(Op::Mul, d, b), bin(Op::Mul, d, c)), "equal"),
        ("a-a=0", bin(Op::Sub, a, a), a.clone(), "zero-with-dim-of-rhs"),
    ];
    if !t.a_zero {
        v.push(("a/a=1", bin(Op::Div, a, a), Expr::num(1), "dimensionless-one"));
    }
    let differ = |x: &Expr, y: &Expr| match (x, y) {
        (Expr::Qty(_, u), Expr::Qty(_, w)) => u != w,
        _ => true,
    };
    let nt = t.facts > 0 || differ(a, b) || differ(b, c);
    let mut classes = vec![];
    if t.facts > 0 {
        classes.push("with-fact".to_string());
    }
    if t.facts >= 2 {
        classes.push(">=2-facts".to_string());
    }
    if differ(a, b) {
        classes.push("different-spellings".to_string());
    }
    v.into_iter()
        .map(|(law, l, r, rel)| LawCase { law: law.to_string(), lhs: render_canonical(&l), rhs: render_canonical(&r), relation: rel.to_string(), nontrivial: nt, classes: classes.clone() })
        .collect()
}

fn check_law(c: &LawCase) -> CaseReport {
    let db = shared_db();
    let key = format!("{} | {}", c.lhs, c.rhs);
    let ev = |q: &str| -> Result<crate::tool::Val, String> {
        match run(db, q) {
            Err(p) => Err(format!("panic: {}", p)),
            Ok(rs) => match rs.as_slice() {
                [R::Ok(v)] => Ok(v.clone()),
                other => Err(format!("not a single value: {}", results_json(other))),
            },
        }
    };
    let fail = |sig: &str, why: String| CaseReport::fail(key.clone(), format!("{}:{}", c.law, sig), json!({"law": c.law, "lhs": c.lhs, "rhs": c.rhs, "why": why}));
    let (lv, rv) = (ev(&c.lhs), ev(&c.rhs));
    // over the offset scales C09 allows a product or sum that holds a scale to be refused: a law whose two sides
    // are both refused is not broken (counted apart, so that a tree refusing everything shows in the evidence)
    if c.law.starts_with("scale:") {
        if let (Err(a), Err(b)) = (&lv, &rv) {
            if !a.starts_with("panic") && !b.starts_with("panic") {
                return CaseReport::pass(key, false, vec![intern("offset-scale-law(both sides refused)")]);
            }
        }
    }
    let l = match lv {
        Ok(v) => v,
        Err(e) => return fail("lhs-not-a-value", e),
    };
    let r = match rv {
        Ok(v) => v,
        Err(e) => return fail("rhs-not-a-value", e),
    };
    let table = &observed().table;
    let (lsi, ldim) = match si_of(&l, table) {
        Some(x) => x,
        None => return fail("unknown-unit", format!("{:?}", l.unit)),
    };
    let (rsi, rdim) = match si_of(&r, table) {
        Some(x) => x,
        None => return fail("unknown-unit", format!("{:?}", r.unit)),
    };
    match c.relation.as_str() {
        "equal" => {
            if ldim != rdim {
                return fail("dimension-differs", format!("{:?} vs {:?}", ldim, rdim));
            }
            if lsi != rsi {
                return fail("si-value-differs", format!("{} vs {}", lsi, rsi));
            }
        }
        "zero-with-dim-of-rhs" => {
            if !lsi.is_zero() {
                return fail("not-zero", lsi.to_string());
            }
            if ldim != rdim {
                return fail("dimension-differs", format!("{:?} vs {:?}", ldim, rdim));
            }
        }
        _ => {
            if lsi != crate::tool::big(1) || ldim != crate::units_ref::ZERO_DIM {
                return fail("not-dimensionless-one", format!("{} {:?}", lsi, ldim));
            }
        }
    }
    CaseReport::pass(key, c.nontrivial, classes_of_law(c))
}

fn classes_of_law(c: &LawCase) -> Vec<&'static str> {
    let mut v: Vec<&'static str> = c.classes.iter().map(|s| intern(s)).collect();
    v.push(intern(&format!("law:{}", c.law)));
    v
}

fn check_triple(t: &Triple) -> CaseReport {
    let ls = laws(t);
    let mut first: Option<CaseReport> = None;
    for l in &ls {
        let rep = check_law(l);
        if let crate::runner::Verdict::Fail { .. } = rep.verdict {
            return rep;
        }
        if first.is_none() {
            first = Some(rep);
        }
    }
    let mut rep = first.unwrap();
    rep.classes.retain(|c| !c.starts_with("law:"));
    rep
}


// ------------------------------------------------------------------------------------------------------
// The same laws over quantities on the offset temperature scales (°C, °F): the unit vocabulary the
// property quantifies over includes them.  Kept apart from the proportional triples because two laws cannot
// be stated across DIFFERENT scales: a sum converts its right operand by the affine formula (C09 demands
// that), so `3 °C + 4 K` and `4 K + 3 °C` are different temperatures by construction, and distributivity
// over such a sum fails for the same reason.  Additive laws therefore use one scale spelling per instance;
// the multiplicative laws mix scales and other units freely.

#[derive(Clone, Debug)]
pub struct ScaleTriple {
    /// (literal text, unit text) of a, b, c: quantities on one scale spelling
    pub scale: String,
    pub xs: [String; 3],
    /// free operands (literal, unit) on any scale or any other unit
    pub d: (String, String),
    pub e: (String, String),
}

fn scale_triple() -> impl Strategy<Value = ScaleTriple> {
    let scale = prop_oneof![Just("°C"), Just("celsius"), Just("°F"), Just("fahrenheit"), Just("m°C"), Just("k°F")];
    let free_unit = prop_oneof![
        3 => prop_oneof![Just("°C"), Just("°F"), Just("K"), Just("celsius"), Just("fahrenheit"), Just("mK")].prop_map(|s| s.to_string()),
        3 => prop_oneof![Just("m"), Just("s"), Just("kg"), Just("J"), Just("W"), Just("ft"), Just("min"), Just("km"), Just("btu"), Just("N")].prop_map(|s| s.to_string()),
        2 => prop_oneof![Just("J/K"), Just("J/°C"), Just("btu/°F"), Just("W/m*K"), Just("m*°C"), Just("°C/s"), Just("°F^2"), Just("1/°C"), Just("K/°F")].prop_map(|s| s.to_string()),
    ];
    let l = || gen::small_lit().prop_map(|l| l.text).prop_filter("no percent", |t| !t.ends_with('%'));
    (scale, l(), l(), l(), (l(), free_unit.clone()), (l(), free_unit)).prop_map(|(scale, x0, x1, x2, d, e)| ScaleTriple { scale: scale.to_string(), xs: [x0, x1, x2], d, e })
}

fn scale_laws(t: &ScaleTriple) -> Vec<LawCase> {
    let q = |x: &str, u: &str| format!("({} {})", x, u);
    let (a, b, c) = (q(&t.xs[0], &t.scale), q(&t.xs[1], &t.scale), q(&t.xs[2], &t.scale));
    let (d, e) = (q(&t.d.0, &t.d.1), q(&t.e.0, &t.e.1));
    let is_zero = |x: &str| crate::decimal::parse_decimal(x).map(|v| v.is_zero()).unwrap_or(true);
    let mut v: Vec<(&str, String, String, &str)> = vec![
        ("scale:a+b=b+a", format!("{} + {}", a, b), format!("{} + {}", b, a), "equal"),
        ("scale:(a+b)+c=a+(b+c)", format!("({} + {}) + {}", a, b, c), format!("{} + ({} + {})", a, b, c), "equal"),
        ("scale:a-a=0", format!("{} - {}", a, a), a.clone(), "zero-with-dim-of-rhs"),
        ("scale:a*d=d*a", format!("{} * {}", a, d), format!("{} * {}", d, a), "equal"),
        ("scale:d*e=e*d", format!("{} * {}", d, e), format!("{} * {}", e, d), "equal"),
        ("scale:(a*d)*e=a*(d*e)", format!("({} * {}) * {}", a, d, e), format!("{} * ({} * {})", a, d, e), "equal"),
        ("scale:(d*a)*b=d*(a*b)", format!("({} * {}) * {}", d, a, b), format!("{} * ({} * {})", d, a, b), "equal"),
        ("scale:d*(b+c)=d*b+d*c", format!("{} * ({} + {})", d, b, c), format!("{} * {} + {} * {}", d, b, d, c), "equal"),
        ("scale:a*(b+c)=a*b+a*c", format!("{} * ({} + {})", a, b, c), format!("{} * {} + {} * {}", a, b, a, c), "equal"),
        // C04's clause over the same operands: an integer power is repeated multiplication
        ("scale:a^2=a*a", format!("{} ^ 2", a), format!("{} * {}", a, a), "equal"),
        ("scale:a^3=a*a*a", format!("{} ^ 3", a), format!("{} * {} * {}", a, a, a), "equal"),
    ];
    if !is_zero(&t.xs[0]) {
        v.push(("scale:a/a=1", format!("{} / {}", a, a), "1".to_string(), "dimensionless-one"));
        v.push(("scale:(d*a)/a=d", format!("({} * {}) / {}", d, a, a), d.clone(), "equal"));
    }
    v.into_iter().map(|(law, lhs, rhs, rel)| LawCase { law: law.to_string(), lhs, rhs, relation: rel.to_string(), nontrivial: true, classes: vec!["offset-scale-operands".to_string()] }).collect()
}

/// A plain number next to quantities whose written unit has no net dimension (`ft/m`, `in/ft`, `min/s`): the
/// plain number adopts the unit it meets (C02), the ratio quantities convert among each other — the additive and
/// multiplicative laws (not distributivity, which the adoption rule rules out) hold for such triples too.
fn ratio_laws(x: &[String; 3], units: &[&str; 2]) -> Vec<LawCase> {
    let a = format!("({})", x[0]);
    let b = format!("({} {})", x[1], units[0]);
    let c = format!("({} {})", x[2], units[1]);
    let v: Vec<(&str, String, String, &str)> = vec![
        ("ratio:a+b=b+a", format!("{} + {}", a, b), format!("{} + {}", b, a), "equal"),
        ("ratio:b+c=c+b", format!("{} + {}", b, c), format!("{} + {}", c, b), "equal"),
        ("ratio:(a+b)+c=a+(b+c)", format!("({} + {}) + {}", a, b, c), format!("{} + ({} + {})", a, b, c), "equal"),
        // not `(b+a)+c = b+(a+c)`: there the plain number meets another unit first on each side and the adoption
        // rule makes the two sides different quantities by construction
        ("ratio:a*b=b*a", format!("{} * {}", a, b), format!("{} * {}", b, a), "equal"),
        ("ratio:(a*b)*c=a*(b*c)", format!("({} * {}) * {}", a, b, c), format!("{} * ({} * {})", a, b, c), "equal"),
        ("ratio:b-b=0", format!("{} - {}", b, b), b.clone(), "zero-with-dim-of-rhs"),
    ];
    v.into_iter().map(|(law, lhs, rhs, rel)| LawCase { law: law.to_string(), lhs, rhs, relation: rel.to_string(), nontrivial: true, classes: vec!["plain-number-and-ratio-units".to_string()] }).collect()
}

fn ratio_triple() -> impl Strategy<Value = ([String; 3], [&'static str; 2])> {
    let u = || prop_oneof![Just("ft/m"), Just("in/ft"), Just("km/mi"), Just("min/s"), Just("g/lb"), Just("J/btu"), Just("l/gal"), Just("yd/ft"), Just("hr/s"), Just("N*s^2/kg*m")];
    let l = || gen::small_lit().prop_map(|l| l.text).prop_filter("no percent", |t| !t.ends_with('%'));
    (l(), l(), l(), u(), u()).prop_map(|(a, b, c, u1, u2)| ([a, b, c], [u1, u2]))
}

fn check_scale_triple(t: &ScaleTriple) -> CaseReport {
    let ls = scale_laws(t);
    let mut first: Option<CaseReport> = None;
    for l in &ls {
        let rep = check_law(l);
        if let crate::runner::Verdict::Fail { .. } = rep.verdict {
            return rep;
        }
        if first.is_none() {
            first = Some(rep);
        }
    }
    let mut rep = first.unwrap();
    rep.classes.retain(|c| !c.starts_with("law:"));
    rep
}

pub fn run_check(ctx: &Ctx) {
    ctx.set_rule("triples (a, b, c) plus a free operand d drawn from literals over the whole proportional unit vocabulary and from every typable fact phrase of the shipped database (decoded by the harness), b and c spelled for a's dimension; seven law instances per triple (a+b=b+a, a*d=d*a, both associativities, distributivity, a-a=0 with a's dimension, a/a=1), both sides evaluated by the tool and compared after SI normalisation through the Compound mirror; the same laws over quantities on the offset scales (°C, °F, prefixed): a, b, c on one scale spelling, free operands d, e on any scale or any other unit (also compounds holding a scale: J/°C, m*°C, °F^2): commutativity and associativity of products, a-a, a/a, (d*a)/a=d, both distributivities, a^2=a*a and a^3=a*a*a, degrees compared as intervals; triples of a plain number and two quantities whose written unit has no net dimension (ft/m, in/ft, min/s …): the additive and multiplicative laws without distributivity; non-trivial = operands with different unit spellings or at least one fact or an offset scale; distinct by the commutativity query pair");
    ctx.assume("both sides of a law must be values; fact dimensions are read from the decoded data files; over the offset scales (°C, °F) the additive laws and distributivity are instantiated with one scale spelling per instance, because a sum across two scales converts its right operand by the affine formula (C09) and is not commutative by construction");
    let corpus: Vec<(String, LawCase)> = load_corpus("C13");
    let cases: Vec<LawCase> = corpus.into_iter().map(|c| c.1).collect();
    ctx.run_list("corpus", &cases, check_law, |c| to_json(c));
    ctx.put("typable_fact_phrases", json!(pool().all.len()));
    let n = ctx.tier.pick(60_000u64, 1_000_000);
    ctx.run_gen("triples", triple, n, check_triple, |t| json!(laws(t)));
    ctx.run_gen("offset-scale-triples", scale_triple, n / 6, check_scale_triple, |t| json!(scale_laws(t)));
    ctx.run_gen(
        "plain-number-and-ratio-units",
        ratio_triple,
        n / 12,
        |(x, u)| {
            let ls = ratio_laws(x, u);
            let mut first: Option<CaseReport> = None;
            for l in &ls {
                let rep = check_law(l);
                if let crate::runner::Verdict::Fail { .. } = rep.verdict {
                    return rep;
                }
                if first.is_none() {
                    first = Some(rep);
                }
            }
            let mut rep = first.unwrap();
            rep.classes.retain(|c| !c.starts_with("law:"));
            rep
        },
        |(x, u)| json!(ratio_laws(x, u)),
    );
    if ctx.tier == crate::runner::Tier::Thorough {
        // every fact once as `a`, with a literal partner
        let p = pool();
        ctx.run_enum(
            "every-fact",
            p.all.len() as u64,
            |i| {
                let (ph, dim) = &p.all[i as usize];
                let raw = RawOperand { fact: None, lit: Lit::int(3), raw: RawSpell { picks: vec![], residual_words: [0; 8], residual_prefixed: [false; 8], slash: true, star: true, order: 0 } };
                let plain = p.plain[i as usize];
                let base = build_spelling(&raw.raw, dim);
                if !plain && base.factors.is_empty() {
                    return None;
                }
                let (b, _) = operand_for(&raw, dim, plain, Some(&base));
                let raw2 = RawOperand { fact: Some((i * 37 % 65536) as u16), ..raw.clone() };
                let (c, _) = operand_for(&raw2, dim, plain, Some(&base));
                Some(Triple { a: Expr::Fact(ph.clone()), b, c, d: Expr::Qty(Lit::from_text("2.5"), crate::gen::fixed_spell(&[("km", 1), ("hr", -1)])), facts: 1, a_zero: p.zero[i as usize] })
            },
            check_triple,
            |t| json!(laws(t)),
        );
    }
}

pub fn replay(ctx: &Ctx, case: &Value) {
    let cases: Vec<LawCase> = match case {
        Value::Array(a) => a.iter().map(|x| serde_json::from_value(x.clone()).expect("LawCase")).collect(),
        other => vec![serde_json::from_value(other.clone()).expect("LawCase")],
    };
    ctx.run_list("replay", &cases, check_law, |c| to_json(c));
}
