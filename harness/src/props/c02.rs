//! C02 Addition, subtraction and casts are allowed exactly between commensurable units.

use super::common::*;
use crate::ast::{eval_ref, render_canonical, Expr, Lit, Op, USpell};
use crate::gen::{self, build_spelling, fixed_spell, free_spelling, raw_spell, LitCfg};
use crate::runner::{CaseReport, Ctx};
use crate::tool::shared_db;
use proptest::prelude::*;
use serde_json::Value;

#[derive(Clone, Debug)]
pub struct Pair {
    pub u1: USpell,
    pub u2: USpell,
    pub x: Lit,
    pub y: Lit,
    pub form: u8,
}

pub const FORMS: u8 = 8;

pub fn expr_of(p: &Pair) -> Expr {
    let a = Expr::Qty(p.x.clone(), p.u1.clone());
    let b = Expr::Qty(p.y.clone(), p.u2.clone());
    match p.form {
        0 => Expr::bin(Op::Add, a, b),
        1 => Expr::bin(Op::Sub, a, b),
        2 => Expr::Cast(Box::new(a), p.u2.clone()),
        // plain-number forms (use u2 / y as the quantity)
        3 => Expr::bin(Op::Add, Expr::Num(p.x.clone()), b),
        4 => Expr::bin(Op::Add, b, Expr::Num(p.x.clone())),
        5 => Expr::bin(Op::Sub, Expr::Num(p.x.clone()), b),
        6 => Expr::bin(Op::Sub, b, Expr::Num(p.x.clone())),
        _ => Expr::Cast(Box::new(Expr::Num(p.x.clone())), p.u2.clone()),
    }
}

pub fn make_case(p: &Pair) -> Option<QCase> {
    let e = expr_of(p);
    let r = eval_ref(&e, &ObsEnv);
    // which unit must the answer be displayed in?
    let unit = match p.form {
        2 | 7 => Some(p.u2.mirror()),
        3..=6 => Some(p.u2.mirror()),
        _ => None,
    };
    let expect = expect_of(&r, unit.as_ref())?;
    let same_dim = p.u1.dim() == p.u2.dim();
    let mut classes: Vec<&str> = vec![];
    classes.push(match p.form {
        0 => "add",
        1 => "sub",
        2 => "cast",
        3 | 4 => "number+quantity",
        5 | 6 => "number-quantity",
        _ => "number-to-unit",
    });
    let structural = {
        let mut a: Vec<_> = p.u1.factors.iter().map(|(w, p)| (w.unit, *p)).collect();
        let mut b: Vec<_> = p.u2.factors.iter().map(|(w, p)| (w.unit, *p)).collect();
        a.sort();
        b.sort();
        a != b
    };
    let cancelling = p.u1.cancelling() || p.u2.cancelling();
    if p.u1.noise_text(" ").is_some() || p.u2.noise_text(" ").is_some() {
        classes.push("explicit-cancelling-factor(x/x^1 ...)");
    }
    let nt;
    if p.form <= 2 {
        classes.push(if same_dim { "commensurable" } else { "incommensurable" });
        if cancelling {
            classes.push("cancelling-spelling");
        }
        if same_dim && cancelling {
            classes.push("commensurable+cancelling");
        }
        nt = structural;
    } else {
        nt = true;
        if p.u2.cancelling() {
            classes.push("cancelling-spelling");
        }
    }
    Some(QCase { query: render_canonical(&e), expect, nontrivial: nt, classes: classes.into_iter().map(|s| s.to_string()).collect() })
}

fn lit() -> impl Strategy<Value = Lit> {
    prop_oneof![3 => gen::small_lit(), 2 => gen::lit(LitCfg::PLAIN)].prop_filter("no percent", |l| !l.text.ends_with('%'))
}

pub fn pair() -> impl Strategy<Value = Pair> {
    let comm = (gen::commensurable_pair(3, 3), lit(), lit(), 0u8..FORMS).prop_map(|((u1, u2), x, y, form)| Pair { u1, u2, x, y, form });
    // incommensurable: second spelling for a perturbed dimension
    let incomm = (free_spelling(3, 3), raw_spell(3, 3), 0usize..8, prop_oneof![Just(1i32), Just(-1), Just(2)], prop::option::weighted(0.3, 0usize..8), lit(), lit(), 0u8..3)
        .prop_map(|(u1, raw, i, d, j, x, y, form)| {
            let mut dim = u1.dim();
            dim[i] += d;
            if let Some(j) = j {
                if j != i {
                    dim[j] -= d;
                }
            }
            let u2 = build_spelling(&raw, &dim);
            Pair { u1, u2, x, y, form }
        })
        .prop_filter("non-empty", |p| !p.u2.factors.is_empty());
    let unrelated = (free_spelling(2, 2), free_spelling(2, 2), lit(), lit(), 0u8..3).prop_map(|(u1, u2, x, y, form)| Pair { u1, u2, x, y, form });
    prop_oneof![6 => comm, 3 => incomm, 1 => unrelated]
}

/// Computed operands: the left side is a product or quotient of two quantities (so its unit is whatever the
/// tool reconstructs), the right side / cast target a spelling built for that dimension or a perturbed one.
#[derive(Clone, Debug)]
pub struct Computed {
    pub a: USpell,
    pub b: USpell,
    pub u2: USpell,
    pub x: Lit,
    pub z: Lit,
    pub y: Lit,
    pub div: bool,
    pub form: u8,
    pub commensurable: bool,
    /// the left factor of the computed operand is a plain number (`(x / z B)`, `(x * z B)`)
    pub plain_left: bool,
    /// write the computed operand without parentheses (`x / z B + y U`)
    pub bare: bool,
}

pub fn computed_expr(c: &Computed) -> Expr {
    let left = if c.plain_left { Expr::Num(c.x.clone()) } else { Expr::Qty(c.x.clone(), c.a.clone()) };
    let inner = Expr::bin(if c.div { Op::Div } else { Op::Mul }, left, Expr::Qty(c.z.clone(), c.b.clone()));
    // without parentheses only where the precedence gives the same tree: as the left operand of a sum
    let prod = if c.bare && c.form == 0 { inner } else { Expr::Paren(Box::new(inner)) };
    let other = Expr::Qty(c.y.clone(), c.u2.clone());
    match c.form {
        0 => Expr::bin(Op::Add, prod, other),
        1 => Expr::bin(Op::Sub, other, prod),
        _ => Expr::Cast(Box::new(prod), c.u2.clone()),
    }
}

pub fn computed() -> impl Strategy<Value = Computed> {
    (free_spelling(2, 2), free_spelling(2, 2), raw_spell(3, 3), any::<bool>(), 0u8..3, prop::option::weighted(0.35, (0usize..8, prop_oneof![Just(1i32), Just(-1), Just(2), Just(-2)])), lit(), lit(), lit(), (prop::bool::weighted(0.3), any::<bool>()))
        .prop_map(|(a, b, raw, div, form, perturb, x, z, y, (plain_left, bare))| {
            let left_dim = if plain_left { crate::units_ref::ZERO_DIM } else { a.dim() };
            let right = crate::units_ref::dim_add(&left_dim, &b.dim(), if div { -1 } else { 1 });
            let mut dim = right;
            let mut commensurable = true;
            if let Some((i, d)) = perturb {
                if plain_left && div && b.dim() != right {
                    // a plain number over a quantity: the tempting wrong unit is the divisor's own
                    dim = b.dim();
                } else {
                    dim[i] += d;
                }
                commensurable = false;
            }
            let u2 = build_spelling(&raw, &dim);
            Computed { a, b, u2, x, z, y, div, form, commensurable, plain_left, bare }
        })
        .prop_filter("non-empty target", |c| !c.u2.factors.is_empty())
}

pub fn computed_case(c: &Computed) -> Option<QCase> {
    let e = computed_expr(c);
    let r = eval_ref(&e, &ObsEnv);
    let unit = if c.form >= 2 { Some(c.u2.mirror()) } else { None };
    let expect = expect_of(&r, unit.as_ref())?;
    let mut classes = vec!["computed-operand".to_string(), if c.commensurable { "commensurable" } else { "incommensurable" }.to_string()];
    if c.plain_left {
        classes.push(if c.div { "plain-number-over-a-quantity" } else { "plain-number-times-a-quantity" }.to_string());
    }
    classes.push(match c.form { 0 => "add", 1 => "sub", _ => "cast" }.to_string());
    Some(QCase { query: render_canonical(&e), expect, nontrivial: true, classes })
}

fn check_computed(c: &Computed) -> CaseReport {
    match computed_case(c) {
        Some(q) => judge(shared_db(), &q),
        None => CaseReport::discard("", "reference-unspecified"),
    }
}

/// Mismatching pairs whose base powers differ by a multiple of a power of two (128, 256, 65536 ...): the two
/// sides agree modulo a narrow integer type and must still be told apart.  Unprefixed base units only, so the
/// exact values stay small.
fn powers_apart() -> impl Strategy<Value = QCase> {
    const BASE: [&str; 8] = ["m", "s", "A", "K", "mol", "cd", "B", "kg"];
    (0usize..8, 0usize..8, -3i32..=3, prop_oneof![Just(128i32), Just(-128), Just(256), Just(-256), Just(255), Just(257), Just(512), Just(-512), Just(65536), Just(-65536), Just(32768), Just(65535)], 0u8..3, any::<bool>(), any::<bool>(), gen::small_lit(), gen::small_lit())
        .prop_filter("no percent", |t| !t.7.text.ends_with('%') && !t.8.text.ends_with('%'))
        .prop_map(|(i, j, p, k, form, extra, swap, x, y)| {
            let u = BASE[i];
            let e = BASE[j];
            let spell = |pw: i32| {
                let main = if pw == 1 { u.to_string() } else { format!("{}^{}", u, pw) };
                if extra && e != u {
                    format!("{}*{}", main, e)
                } else {
                    main
                }
            };
            let p = if p == 0 { 1 } else { p };
            let (a, b) = if swap { (spell(p + k), spell(p)) } else { (spell(p), spell(p + k)) };
            let query = match form {
                0 => format!("{} {} + {} {}", x.text, a, y.text, b),
                1 => format!("{} {} - {} {}", x.text, a, y.text, b),
                _ => format!("{} {} to {}", x.text, a, b),
            };
            QCase { query, expect: Expect::Error { why: "Incommensurable".into() }, nontrivial: true, classes: vec!["incommensurable".into(), "powers-apart-by-a-power-of-two".into()] }
        })
}

/// Sums and differences of three to five terms: zero to two plain numbers in front, then quantities spelled
/// differently for one dimension (the last one sometimes for another dimension).  The running total of such a
/// chain changes its unit along the way (a plain number adopts the unit of the first quantity it meets).
#[derive(Clone, Debug)]
pub struct Chain {
    pub plain: Vec<Lit>,
    pub first: (Lit, USpell),
    pub rest: Vec<(bool, Lit, USpell)>,
    pub plain_last: Option<Lit>,
    /// plain numbers between the quantities: (insert before rest[i], minus, literal) — with them the grouping of a
    /// mixed `+`/`-` chain becomes visible, because a plain number adopts the unit of what it is combined with
    pub plain_mid: Vec<(usize, bool, Lit)>,
}

pub fn chain_expr(c: &Chain) -> Expr {
    let mut terms: Vec<(bool, Expr)> = c.plain.iter().map(|l| (false, Expr::Num(l.clone()))).collect();
    terms.push((false, Expr::Qty(c.first.0.clone(), c.first.1.clone())));
    for (i, (minus, l, u)) in c.rest.iter().enumerate() {
        for (at, m, pl) in &c.plain_mid {
            if *at == i {
                terms.push((*m, Expr::Num(pl.clone())));
            }
        }
        terms.push((*minus, Expr::Qty(l.clone(), u.clone())));
    }
    if let Some(l) = &c.plain_last {
        terms.push((false, Expr::Num(l.clone())));
    }
    let mut it = terms.into_iter();
    let (_, mut e) = it.next().unwrap();
    for (minus, t) in it {
        e = Expr::bin(if minus { Op::Sub } else { Op::Add }, e, t);
    }
    e
}

pub fn chain() -> impl Strategy<Value = Chain> {
    (prop::collection::vec(lit(), 0..=2), lit(), free_spelling(2, 2), prop::collection::vec((any::<bool>(), lit(), raw_spell(2, 2)), 1..=3), prop::option::weighted(0.2, (0usize..8, prop_oneof![Just(1i32), Just(-1)])), prop::option::weighted(0.2, lit()), prop::collection::vec((0usize..3, any::<bool>(), lit()), 0..=2))
        .prop_map(|(plain, x, u1, rest, perturb, plain_last, plain_mid)| {
            let n = rest.len();
            let rest: Vec<(bool, Lit, USpell)> = rest
                .into_iter()
                .enumerate()
                .map(|(i, (minus, l, raw))| {
                    let mut dim = u1.dim();
                    if i + 1 == n {
                        if let Some((k, d)) = perturb {
                            dim[k] += d;
                        }
                    }
                    (minus, l, build_spelling(&raw, &dim))
                })
                .collect();
            let plain_mid: Vec<(usize, bool, Lit)> = plain_mid.into_iter().filter(|(at, _, _)| *at < rest.len()).collect();
            Chain { plain, first: (x, u1), rest, plain_last, plain_mid }
        })
        .prop_filter("every spelling names a unit", |c| !c.first.1.factors.is_empty() && c.rest.iter().all(|(_, _, u)| !u.factors.is_empty()))
}

pub fn chain_case(c: &Chain) -> Option<QCase> {
    let e = chain_expr(c);
    let r = eval_ref(&e, &ObsEnv);
    let expect = expect_of(&r, None)?;
    let mut classes = vec!["sum-chain".to_string()];
    if !c.plain.is_empty() {
        classes.push("sum-chain-starting-with-plain-numbers".to_string());
    }
    if !c.plain_mid.is_empty() {
        classes.push("sum-chain-with-plain-numbers-between-quantities".to_string());
    }
    Some(QCase { query: render_canonical(&e), expect, nontrivial: true, classes })
}

fn check(p: &Pair) -> CaseReport {
    match make_case(p) {
        Some(c) => judge(shared_db(), &c),
        None => CaseReport::discard("", "reference-unspecified"),
    }
}

/// The fixed list named in the property text.
fn fixed_list() -> Vec<Pair> {
    let one = Lit::int(1);
    let mk = |a: &[(&str, i32)], b: &[(&str, i32)], form: u8| Pair { u1: fixed_spell(a), u2: fixed_spell(b), x: Lit::int(3), y: one.clone(), form };
    let mut v = Vec::new();
    let pairs: Vec<(Vec<(&str, i32)>, Vec<(&str, i32)>)> = vec![
        (vec![("J", 1), ("N", -1)], vec![("m", 1)]),
        (vec![("V", 1), ("A", 1)], vec![("W", 1)]),
        (vec![("C", 1), ("s", -1)], vec![("A", 1)]),
        (vec![("T", 1)], vec![("Wb", 1), ("m", -2)]),
        (vec![("Pa", 1)], vec![("N", 1), ("m", -2)]),
        (vec![("J", 1), ("kg", -1), ("K", -1)], vec![("m", 2), ("s", -2), ("K", -1)]),
        (vec![("W", 1), ("hr", 1)], vec![("J", 1)]),
        (vec![("N", 1), ("m", 1)], vec![("J", 1)]),
        (vec![("ohm", 1), ("A", 1)], vec![("V", 1)]),
        (vec![("F", 1), ("V", 1)], vec![("C", 1)]),
        (vec![("H", 1), ("A", 1)], vec![("Wb", 1)]),
        (vec![("lx", 1), ("m", 2)], vec![("lm", 1)]),
        (vec![("Gy", 1)], vec![("J", 1), ("kg", -1)]),
        (vec![("kat", 1)], vec![("mol", 1), ("s", -1)]),
        (vec![("km", 1), ("hr", -1)], vec![("kt", 1)]),
        (vec![("J", 1)], vec![("m", 1)]),
        (vec![("W", 1)], vec![("J", 1)]),
        (vec![("Pa", 1)], vec![("N", 1), ("m", -1)]),
    ];
    for (a, b) in &pairs {
        for form in 0..3 {
            v.push(mk(a, b, form));
            v.push(mk(b, a, form));
        }
    }
    v
}

pub fn run_check(ctx: &Ctx) {
    ctx.set_rule("pairs of unit spellings built for the same dimension vector (commensurable: free first spelling, second = random derived units + residual in base units) or for a perturbed/unrelated one (also one whose base powers differ by 128, 256, 65536 ...), in the forms x U1 + y U2, x U1 - y U2, x U1 to U2 and the plain-number forms x + y U, y U + x, x - y U, y U - x, x to U; oracle: success iff the reference dimension vectors (hand-written table) are equal, exact value x + y*s(U2)/s(U1), plain numbers adopt the unit in both orders; also chains of three to five terms starting with zero to two plain numbers, and with a computed left operand ((x A * z B) + y U, y U - (x A / z B), (x A * z B) to U) whose unit is whatever the tool reconstructed; non-trivial = the two spellings differ structurally or a plain-number form; distinct by query text");
    ctx.assume("proportional units only; each unit at most once per spelling; words are restricted to those the tool reads as declared (C05 judges the rest)");
    let corpus: Vec<(String, QCase)> = load_corpus("C02");
    let cases: Vec<QCase> = corpus.into_iter().map(|c| c.1).collect();
    ctx.run_list("corpus", &cases, |c| judge(shared_db(), c), |c| to_json(c));
    let fixed = fixed_list();
    ctx.run_list("named-pairs", &fixed, check, |p| make_case(p).map(|c| to_json(&c)).unwrap_or(Value::Null));
    let n = ctx.tier.pick(150_000u64, 3_000_000);
    ctx.run_gen("generated", pair, n, check, |p| make_case(p).map(|c| to_json(&c)).unwrap_or(Value::Null));
    ctx.run_gen("powers-apart-by-a-power-of-two", powers_apart, n / 15, |c| judge(shared_db(), c), |c| to_json(c));
    // sums and casts whose left side is a power of a quantity with the unit's power around the 32-bit boundary
    ctx.run_gen(
        "operand-with-unit-power-at-the-32-bit-boundary",
        || crate::props::c04::power_boundary().prop_filter("a sum or a cast", |c| c.query.contains(" + ") || c.query.contains(" to ")),
        1_500,
        |c| judge(shared_db(), c),
        |c| to_json(c),
    );
    ctx.run_gen(
        "sum-chains",
        chain,
        n / 6,
        |c| match chain_case(c) {
            Some(q) => judge(shared_db(), &q),
            None => CaseReport::discard("", "reference-unspecified"),
        },
        |c| chain_case(c).map(|q| to_json(&q)).unwrap_or(Value::Null),
    );
    ctx.run_gen("computed-operands", computed, n / 5, check_computed, |c| computed_case(c).map(|q| to_json(&q)).unwrap_or(Value::Null));
    let obs = observed();
    if !obs.failed.is_empty() {
        ctx.put("factor_observation_failed", serde_json::json!(obs.failed));
    }
}

pub fn replay(ctx: &Ctx, case: &Value) {
    let c: QCase = serde_json::from_value(case.clone()).expect("replay file holds a QCase");
    ctx.run_list("replay", &[c], |c| judge(shared_db(), c), |c| to_json(c));
}
