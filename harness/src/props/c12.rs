//! C12 Lexing and parsing are lossless over the input text.

use super::common::*;
use crate::runner::{guarded, CaseReport, Ctx};
use anything::syntax::lexer::Lexer;
#[allow(unused_imports)]
use std::iter::Iterator;
use anything::syntax::parser::{Parser, Syntax};
use proptest::prelude::*;
use serde::{Deserialize, Serialize};
use serde_json::{json, Value};

#[derive(Clone, Debug, Serialize, Deserialize)]
pub struct StrCase {
    pub input: String,
}

pub const ALPHABET: [&str; 40] = [
    "0", "1", "9", ".", "e", "E", "+", "-", "*", "/", "^", "%", "(", ")", "{", "}", ",", "a", "m", "t", "o", "°", "'", "µ", "é", "日", " ", "\t", "\n", "\u{a0}", "\u{3000}", "x", "=", "_", "\"", "s", "k", "2", "K", "N",
];

const TOKEN_LIMIT: usize = 100_000;

pub fn check_str(s: &str, key_by_text: bool) -> CaseReport {
    let key = if key_by_text { s.to_string() } else { String::new() };
    let r = guarded(s, || {
        // --- lexer
        let mut toks: Vec<(usize, usize, Syntax)> = Vec::new();
        let mut pos = 0usize;
        for t in Lexer::new(s) {
            // whatever integer type the lexer uses for a token's length (usize today)
            #[allow(clippy::useless_conversion)]
            let tlen: usize = usize::try_from(t.len).unwrap_or(usize::MAX / 4);
            if tlen == 0 {
                return Err(("empty-token", format!("token {:?} of length 0 at byte {}", t.kind, pos)));
            }
            let end = pos + tlen;
            if end > s.len() || !s.is_char_boundary(end) {
                return Err(("token-off-boundary", format!("token {:?} ends at byte {} (len {})", t.kind, end, s.len())));
            }
            toks.push((pos, end, t.kind));
            pos = end;
            if toks.len() > TOKEN_LIMIT {
                return Err(("lexer-does-not-terminate", format!("more than {} tokens", TOKEN_LIMIT)));
            }
        }
        if pos != s.len() {
            return Err(("tokens-do-not-cover-input", format!("tokens end at byte {} of {}", pos, s.len())));
        }
        // --- the unit parser (the second entry point of the same parser) runs first, on the same thread: it may
        // stop where the unit expression ends, and whatever a parse that stops early leaves behind (look-ahead,
        // scratch buffers) must not leak into the root parse that follows.  Its own tree is not judged here
        // (the statement is about the query parser).
        if Parser::new(s).parse_unit().is_err() {
            return Err(("parse-unit-failed", "the unit parser returned an error instead of a tree".to_string()));
        }
        // --- parser
        let tree = match Parser::new(s).parse_root() {
            Ok(t) => t,
            Err(e) => return Err(("parse-root-failed", e.to_string())),
        };
        let mut leaves: Vec<(usize, usize, Syntax)> = Vec::new();
        for n in tree.walk() {
            if !n.has_children() {
                let r = n.range();
                if r.start != r.end {
                    leaves.push((r.start, r.end, *n.value()));
                }
            }
        }
        if leaves != toks {
            let i = leaves.iter().zip(toks.iter()).position(|(a, b)| a != b).unwrap_or(leaves.len().min(toks.len()));
            return Err(("tree-leaves-differ-from-tokens", format!("first difference at token #{}: lexer {:?} vs tree {:?} ({} tokens, {} leaves)", i, toks.get(i), leaves.get(i), toks.len(), leaves.len())));
        }
        let mut kinds: Vec<Syntax> = Vec::new();
        for t in &toks {
            if !kinds.contains(&t.2) {
                kinds.push(t.2);
            }
        }
        Ok((toks.len(), kinds))
    });
    match r {
        Err(p) => CaseReport::fail(key, format!("panic:{}", panic_site(&p)), json!({"input": s, "panic": p})),
        Ok(Err((sig, why))) => CaseReport::fail(key, sig, json!({"input": s, "why": why})),
        Ok(Ok((ntok, kinds))) => {
            let mut classes = vec![];
            if kinds.contains(&Syntax::OPEN_BRACE) {
                classes.push("brace-mode");
            }
            if !s.is_ascii() {
                classes.push("multi-byte");
            }
            if kinds.contains(&Syntax::NUMBER) && (s.contains('e') || s.contains('E') || s.contains('.')) {
                classes.push("number-continuation");
            }
            if kinds.contains(&Syntax::ERROR) {
                classes.push("error-token");
            }
            let _ = ntok;
            CaseReport::pass(key, kinds.len() >= 2, classes)
        }
    }
}

fn nth_over(alpha: &[&'static str], len: usize, mut idx: u64) -> String {
    let k = alpha.len() as u64;
    let mut parts = vec![""; len];
    for i in (0..len).rev() {
        parts[i] = alpha[(idx % k) as usize];
        idx /= k;
    }
    parts.concat()
}

fn nth(len: usize, idx: u64) -> String {
    nth_over(&ALPHABET, len, idx)
}

/// Half of the alphabet (one representative per lexer character class).
pub const REDUCED: [&str; 20] = ["1", ".", "e", "+", "-", "*", "/", "^", "%", "(", ")", "{", "}", ",", "m", "t", "o", "é", " ", "\u{3000}"];

pub fn run_check(ctx: &Ctx) {
    ctx.set_rule("all strings up to the stated length over a 40-symbol alphabet (digits, operators, letters, braces, multi-byte characters, Unicode blanks) are enumerated, plus random longer strings and a fixed family of inputs with one token of 2^16..2^17 bytes (blanks, digits, letters) or with 2 000..65 000 small tokens, and an alignment sweep (a run of 0..130 equal token characters — letters, digits, blanks, degree signs, points — followed by each of 13 multi-byte characters, behind three prefixes and before three suffixes); oracle: tokens non-empty, contiguous, on char boundaries, covering the input, the root parse tree's leaves equal the token sequence (start, end, kind), also right after the unit parser ran on the same string and thread; non-trivial = at least two different token kinds; a part of it again with the most verbose log level enabled (configuration that must not matter); enumerated strings are distinct by construction");
    let corpus: Vec<(String, StrCase)> = load_corpus("C12");
    let cases: Vec<StrCase> = corpus.into_iter().map(|c| c.1).collect();
    ctx.run_list("corpus", &cases, |c| check_str(&c.input, true), |c| to_json(c));
    let maxlen = ctx.tier.pick(4usize, 6);
    for len in 0..=maxlen {
        let total = (ALPHABET.len() as u64).pow(len as u32);
        ctx.run_enum(&format!("exhaustive-len{}", len), total, |i| Some(nth(len, i)), |s| check_str(s, false), |s| json!({"input": s}));
    }
    if maxlen < 6 {
        // one length further over a 20-symbol sub-alphabet (one symbol per lexer character class)
        let len = maxlen + 1;
        let total = (REDUCED.len() as u64).pow(len as u32);
        ctx.run_enum(&format!("exhaustive-reduced-len{}", len), total, |i| Some(nth_over(&REDUCED, len, i)), |s| check_str(s, false), |s| json!({"input": s}));
    }
    ctx.exhaustive.store(true, std::sync::atomic::Ordering::Relaxed);
    ctx.put("exhaustive_scope", json!(format!("all strings of length 0..={} over the 40-symbol alphabet{}", maxlen, if maxlen < 6 { format!(", length {} over a 20-symbol sub-alphabet", maxlen + 1) } else { String::new() })));
    let n = ctx.tier.pick(300_000u64, 6_000_000);
    ctx.run_gen(
        "random-alphabet-7..40",
        || prop::collection::vec(0usize..ALPHABET.len(), 7..=40).prop_map(|v| StrCase { input: v.into_iter().map(|i| ALPHABET[i]).collect::<String>() }),
        n,
        |c| check_str(&c.input, true),
        |c| to_json(c),
    );
    // alignment sweep: a run of 0..=130 equal token characters, then one multi-byte character, at every offset —
    // whatever block size a scanner may take a run in (8, 16, 32, 64, 128 bytes), the character lands on every
    // position relative to it
    {
        const RUN: [&str; 10] = ["a", "Z", "7", "0", " ", "\t", "°", "'", "e", "."];
        const MB: [&str; 13] = ["°", "µ", "²", "é", "\u{a0}", "‰", "′", "İ", "\u{2003}", "日", "😀", "\u{feff}", "\u{3000}"];
        const PRE: [&str; 3] = ["", "1 ", "(2"];
        const SUF: [&str; 3] = ["", "C to K", " + 1"];
        let maxk = 131u64;
        let total = RUN.len() as u64 * MB.len() as u64 * PRE.len() as u64 * SUF.len() as u64 * maxk;
        ctx.run_enum(
            "alignment-sweep",
            total,
            |mut i| {
                let k = (i % maxk) as usize;
                i /= maxk;
                let r = RUN[(i % RUN.len() as u64) as usize];
                i /= RUN.len() as u64;
                let m = MB[(i % MB.len() as u64) as usize];
                i /= MB.len() as u64;
                let p = PRE[(i % PRE.len() as u64) as usize];
                i /= PRE.len() as u64;
                let sfx = SUF[i as usize];
                Some(format!("{}{}{}{}", p, r.repeat(k), m, sfx))
            },
            |s| check_str(s, false),
            |s| json!({"input": s}),
        );
    }
    // the log level is configuration that must not matter: with the most verbose level enabled (the `log` macros
    // then evaluate their arguments) a part of the above is lexed and parsed once more
    {
        log::set_max_level(log::LevelFilter::Trace);
        for len in 0..=3usize {
            let total = (ALPHABET.len() as u64).pow(len as u32);
            ctx.run_enum(&format!("exhaustive-len{}(trace logging on)", len), total, |i| Some(nth(len, i)), |s| check_str(s, false), |s| json!({"input": s, "trace_logging": true}));
        }
        let words = ["45°", "90° to rad", "a°", "°C", "5°C to K", "aaaaaaaaaaaaaaa°C", "x'y", "it's 3", "1e5°", "°°°", "é°", "m°s"];
        let ws: Vec<StrCase> = words.iter().map(|w| StrCase { input: w.to_string() }).collect();
        ctx.run_list("words-with-degree-signs(trace logging on)", &ws, |c| check_str(&c.input, false), |c| json!({"input": c.input, "trace_logging": true}));
        ctx.run_gen("random-unicode(trace logging on)", || "[ -~°µ²é日\\u{a0}]{0,24}".prop_map(|s| StrCase { input: s }), n / 10, |c| check_str(&c.input, false), |c| json!({"input": c.input, "trace_logging": true}));
        log::set_max_level(log::LevelFilter::Off);
    }
    let huge = huge_token_inputs();
    ctx.run_list("huge-tokens", &huge, |c| check_str(&c.text(), false), |c| to_json(c));
    ctx.run_gen("random-unicode", || ".{0,30}".prop_map(|s| StrCase { input: s }), n / 3, |c| check_str(&c.input, true), |c| to_json(c));
    ctx.run_gen("random-any-string", || any::<String>().prop_map(|s| StrCase { input: s }), n / 6, |c| check_str(&c.input, true), |c| to_json(c));
}

/// An input with one huge token, kept as a recipe so that evidence and replay files stay small.
#[derive(Clone, Debug, Serialize, Deserialize)]
pub struct HugeCase {
    pub prefix: String,
    pub repeat: String,
    pub count: usize,
    pub suffix: String,
}

impl HugeCase {
    pub fn text(&self) -> String {
        format!("{}{}{}", self.prefix, self.repeat.repeat(self.count), self.suffix)
    }
}

/// Inputs with one token of 2^16 / 2^17 bytes and more (a run of blanks, of digits, of letters, of zeros behind
/// a point) next to ordinary tokens: whatever integer width a token's length is kept in must hold it.
pub fn huge_token_inputs() -> Vec<HugeCase> {
    let mut v = Vec::new();
    let mk = |p: &str, r: &str, n: usize, s: &str| HugeCase { prefix: p.into(), repeat: r.into(), count: n, suffix: s.into() };
    for n in [65_535usize, 65_536, 65_537, 70_000, 131_073] {
        v.push(mk("1 +", " ", n, "2"));
        v.push(mk("", "\t", n, "1 + 2"));
        v.push(mk("0.", "0", n, "5 * 2"));
        v.push(mk("", "0", n, "42 + 1"));
        v.push(mk("1 ", "a", n, " 2"));
        v.push(mk("(1 + 2)", " \t", n / 2 + 1, "* 3"));
    }
    // many small tokens instead of one huge one: the parser's look-ahead buffer and whatever it counts per token
    for n in [1_000usize, 1_023, 1_024, 1_025, 1_200, 2_048, 4_095, 4_096, 4_097, 5_000, 16_385] {
        v.push(mk("", "1 + ", n, "1"));
        v.push(mk("", "2*", n, "2"));
        v.push(mk("(", "1 m ,", n, ")"));
    }
    v
}

pub fn replay(ctx: &Ctx, case: &Value) {
    if case.get("trace_logging").and_then(|v| v.as_bool()) == Some(true) {
        log::set_max_level(log::LevelFilter::Trace);
    }
    if case.get("count").is_some() {
        let c: HugeCase = serde_json::from_value(case.clone()).expect("replay file holds a HugeCase");
        ctx.run_list("replay", &[c], |c| check_str(&c.text(), false), |c| to_json(c));
        return;
    }
    let c: StrCase = serde_json::from_value(case.clone()).expect("replay file holds {input}");
    ctx.run_list("replay", &[c], |c| check_str(&c.input, true), |c| to_json(c));
}
