//! C18 Describing a query does not change its answer and reports exactly the facts used.

use super::c13::pool;
use super::common::*;
use crate::ast::{eval_ref, render_canonical, Env, Expr, Lit, Op, UState, Q};
use crate::gen::{self, build_spelling, raw_spell, LitCfg, RawSpell};
use crate::runner::{guarded, pick_idx, CaseReport, Ctx};
use crate::tool::{run_full, shared_db, Desc, R};
use crate::units_ref::{mirror_dim, mirror_scale, Dim, ScaleTable};
use anything::Db;
use proptest::prelude::*;
use serde::{Deserialize, Serialize};
use serde_json::{json, Value};
use std::collections::BTreeMap;

#[derive(Clone, Debug, Serialize, Deserialize)]
pub struct DCase {
    /// Full query (one or more parenthesised expressions separated by a blank).
    pub query: String,
    /// Per result: the expectation and the phrases of that expression.
    pub parts: Vec<DPart>,
    #[serde(default)]
    pub nontrivial: bool,
}

#[derive(Clone, Debug, Serialize, Deserialize)]
pub struct DPart {
    pub expect: Expect,
    pub phrases: Vec<String>,
}

/// Environment in which a phrase means the constant it returns when asked alone.
struct FactEnv<'a> {
    alone: &'a BTreeMap<String, Q>,
}

impl Env for FactEnv<'_> {
    fn scales(&self) -> &ScaleTable {
        &observed().table
    }
    fn fact(&self, phrase: &str) -> Option<Q> {
        self.alone.get(phrase).cloned()
    }
}

fn desc_sig(d: &Desc) -> String {
    format!("{}|{}|{}|{:?}", d.phrase, d.description, d.value, d.unit)
}

/// Outcome of asking a phrase alone, with descriptions on.
enum Alone {
    /// one value and exactly one description: (Q for the reference, signature of the constant)
    Found(Q, String),
    /// the lookup itself fails (nothing found, or an error): the phrase cannot be used in a case
    NotFound,
    /// a value came back but not with exactly one description of that phrase: a violation in itself
    Anomaly(String),
}

fn ask_alone_full(db: &Db, phrase: &str) -> Alone {
    let run = match run_full(db, phrase, true) {
        Ok(r) => r,
        Err(p) => return Alone::Anomaly(format!("panic: {}", p)),
    };
    match (run.results.as_slice(), run.descs.as_slice()) {
        ([R::Ok(v)], [d]) => {
            if d.phrase != phrase {
                return Alone::Anomaly(format!("asked {:?}, described {:?}", phrase, d.phrase));
            }
            let (Some(dim), Some(scale)) = (mirror_dim(&v.unit), mirror_scale(&v.unit, &observed().table)) else { return Alone::NotFound };
            let unit = if v.unit.is_empty() { UState::Plain } else { UState::Known(scale.clone()) };
            Alone::Found(Q { si: &v.value * &scale, dim, unit }, format!("{}|{}|{:?}", d.description, d.value, d.unit))
        }
        ([R::Ok(_)], ds) => Alone::Anomaly(format!("one value but {} descriptions: {:?}", ds.len(), ds.iter().map(|d| d.phrase.clone()).collect::<Vec<_>>())),
        _ => Alone::NotFound,
    }
}

/// Ask a phrase alone (with describe) → (Q for the reference, signature of the constant).
fn ask_alone(db: &Db, phrase: &str) -> Option<(Q, String)> {
    match ask_alone_full(db, phrase) {
        Alone::Found(q, s) => Some((q, s)),
        _ => None,
    }
}

fn phrases_of(e: &Expr) -> Vec<String> {
    let mut v = Vec::new();
    e.visit(&mut |n| {
        if let Expr::Fact(p) = n {
            v.push(p.clone());
        }
    });
    v
}

fn make_case(exprs: &[Expr]) -> Option<DCase> {
    make_case_full(exprs).ok().flatten()
}

/// Err((signature, detail)) when a phrase asked alone already misbehaves (so the case is a failure, not a discard).
fn make_case_full(exprs: &[Expr]) -> Result<Option<DCase>, (String, Value)> {
    let db = shared_db();
    let mut alone: BTreeMap<String, Q> = BTreeMap::new();
    for e in exprs {
        for p in phrases_of(e) {
            if !alone.contains_key(&p) {
                match ask_alone_full(db, &p) {
                    Alone::Found(q, _) => {
                        alone.insert(p, q);
                    }
                    Alone::NotFound => return Ok(None),
                    Alone::Anomaly(why) => return Err(("phrase-alone-is-not-described-exactly-once".to_string(), json!({"query": p, "why": why}))),
                }
            }
        }
    }
    Ok(make_case_with(exprs, &alone))
}

fn make_case_with(exprs: &[Expr], alone: &BTreeMap<String, Q>) -> Option<DCase> {
    let env = FactEnv { alone };
    let mut parts = Vec::new();
    let mut texts = Vec::new();
    let mut nfacts = 0;
    for e in exprs {
        let r = eval_ref(e, &env);
        let cast_unit = match e {
            Expr::Cast(_, u) => Some(u.mirror()),
            _ => None,
        };
        let expect = expect_of(&r, cast_unit.as_ref())?;
        let ph = phrases_of(e);
        nfacts += ph.len();
        parts.push(DPart { expect, phrases: ph });
        texts.push(render_canonical(e));
    }
    let query = if texts.len() == 1 { texts[0].clone() } else { texts.iter().map(|t| format!("({})", t)).collect::<Vec<_>>().join(" ") };
    Some(DCase { query, parts, nontrivial: nfacts >= 2 })
}

fn same_results(a: &[R], b: &[R]) -> bool {
    a.len() == b.len()
        && a.iter().zip(b.iter()).all(|(x, y)| match (x, y) {
            (R::Ok(v), R::Ok(w)) => v.value == w.value && v.unit == w.unit,
            (R::Err { msg: m1, start: s1, end: e1 }, R::Err { msg: m2, start: s2, end: e2 }) => m1 == m2 && s1 == s2 && e1 == e2,
            _ => false,
        })
}

fn check_on(db: &Db, c: &DCase) -> CaseReport {
    let q = &c.query;
    let with = match run_full(db, q, true) {
        Ok(r) => r,
        Err(p) => return CaseReport::fail(q, "panic", json!({"query": q, "panic": p})),
    };
    let without = match run_full(db, q, false) {
        Ok(r) => r,
        Err(p) => return CaseReport::fail(q, "panic", json!({"query": q, "panic": p})),
    };
    let fail = |sig: &str, why: String| CaseReport::fail(q, sig, json!({"query": q, "why": why, "with_describe": results_json(&with.results), "without": results_json(&without.results), "descriptions": with.descs.iter().map(|d| d.phrase.clone()).collect::<Vec<_>>()}));
    if !without.descs.is_empty() {
        return fail("descriptions-while-disabled", format!("{} descriptions recorded although describe is off", without.descs.len()));
    }
    if !same_results(&with.results, &without.results) {
        return fail("describe-changes-the-answer", String::new());
    }
    if with.results.len() != c.parts.len() {
        return fail("result-count", format!("{} results, expected {}", with.results.len(), c.parts.len()));
    }
    // per-result expectation
    for (i, (part, r)) in c.parts.iter().zip(with.results.iter()).enumerate() {
        let sub = QCase { query: q.clone(), expect: part.expect.clone(), nontrivial: false, classes: vec![] };
        let rep = judge_result(&sub, r);
        if let Some((sig, why)) = rep {
            return fail(&format!("result{}:{}", i, sig), why);
        }
    }
    // descriptions: in result order; a successful result reports exactly its phrases (as a multiset —
    // the order inside one expression is the evaluator's), a failed result any sub-multiset of its
    // phrases (the lookups made before it failed).  A later failure must not take anything away
    // from an earlier success, so the list must split that way for SOME choice of how many
    // descriptions each failed result left behind.
    let all_ok = with.results.iter().all(|r| r.is_ok());
    let expected_total: usize = c.parts.iter().map(|p| p.phrases.len()).sum();
    fn is_submultiset(sub: &[String], of: &[String]) -> bool {
        let mut pool: Vec<&String> = of.iter().collect();
        sub.iter().all(|x| match pool.iter().position(|p| *p == x) {
            Some(i) => {
                pool.remove(i);
                true
            }
            None => false,
        })
    }
    fn split_ok(parts: &[DPart], oks: &[bool], descs: &[String]) -> bool {
        match parts.split_first() {
            None => descs.is_empty(),
            Some((part, rest)) => {
                if oks[0] {
                    let k = part.phrases.len();
                    if descs.len() < k {
                        return false;
                    }
                    let mut g: Vec<String> = descs[..k].to_vec();
                    let mut w = part.phrases.clone();
                    g.sort();
                    w.sort();
                    g == w && split_ok(rest, &oks[1..], &descs[k..])
                } else {
                    (0..=part.phrases.len().min(descs.len())).any(|k| is_submultiset(&descs[..k], &part.phrases) && split_ok(rest, &oks[1..], &descs[k..]))
                }
            }
        }
    }
    let oks: Vec<bool> = with.results.iter().map(|r| r.is_ok()).collect();
    let described: Vec<String> = with.descs.iter().map(|d| d.phrase.clone()).collect();
    for d in &described {
        if !c.parts.iter().any(|p| p.phrases.contains(d)) {
            return fail("description-of-an-unused-phrase", format!("{:?}", d));
        }
    }
    if !split_ok(&c.parts, &oks, &described) {
        let sig = if all_ok { "descriptions-are-not-the-phrases-used" } else { "descriptions-of-a-successful-result-missing-or-misplaced" };
        return fail(sig, format!("described {:?}; per result (ok?, phrases): {:?}", described, c.parts.iter().zip(oks.iter()).map(|(p, o)| (*o, p.phrases.clone())).collect::<Vec<_>>()));
    }
    // a caller that takes one result and drops the iterator must already hold that result's descriptions
    if oks.first() == Some(&true) {
        match crate::tool::first_result_descriptions(db, q) {
            Ok(Some((true, mut got))) => {
                let mut w = c.parts[0].phrases.clone();
                got.sort();
                w.sort();
                if got != w {
                    return fail("descriptions-missing-after-the-first-result", format!("after one next() and dropping the iterator: described {:?}, phrases of the first result {:?}", got, w));
                }
            }
            Ok(_) => return fail("first-result-changes", "evaluating again, the first result is no longer a value".to_string()),
            Err(p) => return fail("panic", p),
        }
    }
    let ok_before_err = oks.iter().position(|o| !*o).map(|e| c.parts[..e].iter().any(|p| !p.phrases.is_empty())).unwrap_or(false);
    // each description carries the constant the phrase returns when asked alone
    for d in &with.descs {
        match ask_alone(db, &d.phrase) {
            Some((_, sig)) => {
                if sig != format!("{}|{}|{:?}", d.description, d.value, d.unit) {
                    return fail("described-constant-is-not-the-one-used", format!("phrase {:?}: described {} but alone it returns {}", d.phrase, desc_sig(d), sig));
                }
            }
            None => return fail("described-phrase-not-found-alone", d.phrase.clone()),
        }
    }
    let mut classes = vec![];
    if c.parts.len() >= 2 {
        classes.push("multi-result");
    }
    if expected_total >= 2 {
        classes.push(">=2-phrases");
    }
    if !all_ok {
        classes.push("with-error");
    }
    if ok_before_err {
        classes.push("described-success-before-a-failing-result");
    }
    CaseReport::pass(q, c.nontrivial, classes)
}

/// Compare one tool result with an expectation; Some((sig, why)) on mismatch.
fn judge_result(c: &QCase, r: &R) -> Option<(String, String)> {
    match (&c.expect, r) {
        (Expect::Pair { .. }, _) => Some(("malformed-case".into(), "pair expectation".into())),
        (Expect::Error { .. }, R::Err { .. }) => None,
        (Expect::Error { .. }, R::Ok(_)) => Some(("number-instead-of-error".into(), r.brief())),
        (_, R::Err { .. }) => Some(("error-instead-of-value".into(), r.brief())),
        (Expect::Plain { value }, R::Ok(v)) => {
            if !v.unit.is_empty() || v.value != parse_rat(value) {
                Some(("wrong-value".into(), format!("{} expected {}", r.brief(), value)))
            } else {
                None
            }
        }
        (Expect::Quantity { si, dim }, R::Ok(v)) | (Expect::QuantityIn { si, dim, .. }, R::Ok(v)) => match si_of(v, &observed().table) {
            Some((tsi, tdim)) => {
                if tdim != *dim || tsi != parse_rat(si) {
                    Some(("wrong-quantity".into(), format!("{} = SI {} {:?}, expected {} {:?}", r.brief(), tsi, tdim, si, dim)))
                } else {
                    None
                }
            }
            None => Some(("unknown-unit".into(), r.brief())),
        },
    }
}

// ------------------------------------------------------------- generation

#[derive(Clone, Debug)]
struct RawTerm {
    kind: u8,
    fact: u16,
    lit: Lit,
    raw: RawSpell,
}

fn raw_term() -> impl Strategy<Value = RawTerm> {
    (0u8..10, any::<u16>(), prop_oneof![3 => gen::small_lit(), 1 => gen::lit(LitCfg::PLAIN)].prop_filter("no percent", |l| !l.text.ends_with('%')), raw_spell(1, 2)).prop_map(|(kind, fact, lit, raw)| RawTerm { kind, fact, lit, raw })
}

/// A term of dimension `dim` (None: anything).
fn term(raw: &RawTerm, dim: Option<&Dim>) -> (Expr, Dim) {
    let p = pool();
    match dim {
        None => {
            if raw.kind < 6 {
                let k = pick_idx(raw.fact, p.all.len());
                (Expr::Fact(p.all[k].0.clone()), p.all[k].1)
            } else if raw.kind == 6 {
                // a sub-phrase: some of the words of a fact (whatever constant that resolves to);
                // its dimension is only known after asking, so it is used in products only
                let k = pick_idx(raw.fact, p.all.len());
                let words: Vec<&str> = p.all[k].0.split(' ').collect();
                let mask = (raw.fact as usize).wrapping_mul(2654435761) >> 7;
                let mut sub: Vec<&str> = words.iter().enumerate().filter(|(i, _)| (mask >> i) & 1 == 1).map(|(_, w)| *w).collect();
                if sub.is_empty() {
                    sub.push(words[mask % words.len()]);
                }
                let toks: Vec<String> = sub.iter().map(|s| s.to_string()).collect();
                if crate::facts::typable(&toks) {
                    (Expr::Fact(toks.join(" ")), [99, 0, 0, 0, 0, 0, 0, 0])
                } else {
                    (Expr::Fact(p.all[k].0.clone()), p.all[k].1)
                }
            } else if raw.kind < 8 {
                (Expr::Num(raw.lit.clone()), crate::units_ref::ZERO_DIM)
            } else {
                let mut d = crate::units_ref::ZERO_DIM;
                d[1 + (raw.fact % 2) as usize] = 1;
                let sp = build_spelling(&raw.raw, &d);
                (Expr::Qty(raw.lit.clone(), sp), d)
            }
        }
        Some(d) => {
            if raw.kind < 6 {
                if let Some(ix) = p.by_dim.get(d) {
                    let k = ix[pick_idx(raw.fact, ix.len())];
                    return (Expr::Fact(p.all[k].0.clone()), *d);
                }
            }
            let sp = build_spelling(&raw.raw, d);
            if sp.factors.is_empty() {
                (Expr::Num(raw.lit.clone()), *d)
            } else {
                (Expr::Qty(raw.lit.clone(), sp), *d)
            }
        }
    }
}

fn expression() -> impl Strategy<Value = Expr> {
    (prop::collection::vec((raw_term(), 0u8..10, any::<bool>()), 1..=4), prop::option::weighted(0.2, raw_spell(1, 1))).prop_map(|(terms, cast)| {
        let (mut e, mut dim) = term(&terms[0].0, None);
        for (rt, o, paren) in &terms[1..] {
            let (op, same) = match o {
                0..=2 => (Op::Add, true),
                3..=4 => (Op::Sub, true),
                5..=7 => (Op::Mul, false),
                8 => (Op::Div, false),
                _ => (Op::Add, false), // mostly incommensurable: error cases
            };
            let (mut t, mut td) = term(rt, if same && dim[0] != 99 { Some(&dim) } else { None });
            let (op, _same) = if dim[0] == 99 || td[0] == 99 {
                // unknown dimension on either side: products only
                (if *o % 2 == 0 { Op::Mul } else { Op::Div }, false)
            } else {
                (op, same)
            };
            if td[0] == 99 {
                td = crate::units_ref::ZERO_DIM;
                dim[0] = 99;
            }
            let _ = &mut t;
            if *paren {
                e = Expr::Paren(Box::new(e));
            }
            e = Expr::bin(op, e, t);
            let unknown = dim[0] == 99;
            match op {
                Op::Mul => dim = crate::units_ref::dim_add(&dim, &td, 1),
                Op::Div => dim = crate::units_ref::dim_add(&dim, &td, -1),
                _ => {}
            }
            if unknown {
                dim[0] = 99;
            }
        }
        if let (Some(raw), true) = (cast, dim[0] != 99) {
            let sp = build_spelling(&raw, &dim);
            if !sp.factors.is_empty() {
                e = Expr::Cast(Box::new(e), sp);
            }
        }
        e
    })
}

/// An expression that fails: a division by the literal zero (of a plain number or of a whole expression).
fn failing() -> impl Strategy<Value = Expr> {
    let zero = || Expr::Num(Lit::from_text("0"));
    prop_oneof![
        1 => gen::small_lit().prop_map(move |l| Expr::bin(Op::Div, Expr::Num(l), zero())),
        2 => expression().prop_map(move |e| Expr::bin(Op::Div, Expr::Paren(Box::new(e)), zero())),
        // the failure inside the argument of a call (a call that cannot be made), alone and next to a fact
        1 => (gen::small_lit(), prop_oneof![Just("round"), Just("floor"), Just("ceil")]).prop_map(move |(l, f)| Expr::Call(f, vec![Expr::bin(Op::Div, Expr::Num(l), zero())])),
        2 => (expression(), prop_oneof![Just("round"), Just("floor"), Just("ceil")], any::<bool>()).prop_map(move |(e, f, mul)| {
            let call = Expr::Call(f, vec![Expr::bin(Op::Div, Expr::num(1), zero())]);
            if mul { Expr::bin(Op::Mul, call, Expr::Paren(Box::new(e))) } else { Expr::bin(Op::Add, Expr::Paren(Box::new(e)), call) }
        }),
    ]
}

/// A fact inside an exponent and inside function arguments: `T ^ round(A / B)`, `round(A / B, n) * C`, with A, B
/// plain-number facts (populations, pi ...).  Every phrase is looked up once for the value that enters the
/// computation, wherever in the expression it stands.
fn fact_in_exponent_or_call() -> impl Strategy<Value = Expr> {
    (any::<u16>(), any::<u16>(), any::<u16>(), 1i64..=3, 0u8..4, -2i64..=2).prop_map(|(i, j, k, t, form, n)| {
        let p = pool();
        let plain: Vec<usize> = (0..p.all.len()).filter(|x| p.plain[*x] && !p.zero[*x]).collect();
        let fact = |x: u16| Expr::Fact(p.all[plain[pick_idx(x, plain.len())]].0.clone());
        let ratio = Expr::bin(Op::Div, fact(i), fact(j));
        match form {
            0 => Expr::PowE(Box::new(Expr::num(t)), Box::new(Expr::Call("round", vec![ratio]))),
            1 => Expr::PowE(Box::new(Expr::Paren(Box::new(fact(k)))), Box::new(Expr::Call("round", vec![Expr::bin(Op::Div, fact(i), fact(i))]))),
            2 => Expr::bin(Op::Mul, Expr::Call("round", vec![ratio, Expr::num(n)]), fact(k)),
            _ => Expr::bin(Op::Sub, Expr::Call("floor", vec![ratio.clone()]), Expr::Call("ceil", vec![ratio])),
        }
    })
}

/// As `exprs`, without facts inside exponents and digits arguments: for callers that hand the text to the tool
/// without a reference evaluation (and its size guard) in front — there a fact as an exponent is a resource test.
pub fn exprs_plain() -> impl Strategy<Value = Vec<Expr>> {
    prop_oneof![
        5 => expression().prop_map(|e| vec![e]),
        1 => prop::collection::vec(expression(), 2..=3),
    ]
}

pub fn exprs() -> impl Strategy<Value = Vec<Expr>> {
    prop_oneof![
        5 => expression().prop_map(|e| vec![e]),
        1 => fact_in_exponent_or_call().prop_map(|e| vec![e]),
        1 => prop::collection::vec(expression(), 2..=3),
        // successes followed (or preceded) by a failing expression in the same query
        1 => (prop::collection::vec(expression(), 1..=2), failing(), any::<bool>()).prop_map(|(mut v, f, last)| {
            if last {
                v.push(f);
            } else {
                v.insert(0, f);
            }
            v
        }),
    ]
}

/// `<number> <phrase>` for a phrase that is not a unit expression: today an error; whatever it is, a value that
/// comes out of such a query has used the fact and must say so.
fn juxtaposed(phrase: &str) -> CaseReport {
    let q = format!("2 {}", phrase);
    if matches!(crate::tool::parse_compound(phrase), Ok(Ok(_))) {
        return CaseReport::pass(&q, false, vec!["phrase-is-a-unit-expression(skipped)"]);
    }
    let run = match run_full(shared_db(), &q, true) {
        Ok(r) => r,
        Err(p) => return CaseReport::fail(&q, "panic", json!({"query": q, "panic": p})),
    };
    let any_value = run.results.iter().any(|r| r.is_ok());
    if any_value && !run.descs.iter().any(|d| phrase.contains(d.phrase.as_str()) || d.phrase.contains(phrase)) {
        return CaseReport::fail(&q, "value-from-a-phrase-without-a-description", json!({"query": q, "results": results_json(&run.results), "descriptions": run.descs.iter().map(|d| d.phrase.clone()).collect::<Vec<_>>()}));
    }
    CaseReport::pass(&q, true, vec![if any_value { "number-juxtaposed-with-a-phrase(value, described)" } else { "number-juxtaposed-with-a-phrase(refused)" }])
}

pub fn run_check(ctx: &Ctx) {
    ctx.set_rule("expressions mixing literals, quantities and typable fact phrases with + - * /, parentheses and `to` (also 2-3 parenthesised expressions in one query; facts inside exponents and function arguments; a number written directly in front of every phrase): results with and without descriptions are equal, no description is recorded when disabled, descriptions are exactly the phrases used (multiset, grouped per result; a sub-multiset when a result is an error), each paired with the constant the phrase returns when asked alone, and the value equals the reference evaluation with phrases replaced by those constants; a failing expression among successful ones takes no description away from them; histories: shuffled lists of such queries (plus clusters of phrases sharing a long prefix, and of phrases differing only in letter case or in the case of an inserted and/or/not) against one database instance give each query the result it has on a fresh instance; histories of bare lookups in which a found phrase is followed by the same rejected or not-found phrase two or three times (as separate queries and as results of one query); non-trivial = >=2 phrases or a history with a repeated query; distinct by query text");
    let corpus: Vec<(String, DCase)> = load_corpus("C18");
    let cases: Vec<DCase> = corpus.into_iter().map(|c| c.1).collect();
    ctx.run_list("corpus", &cases, |c| check_on(shared_db(), c), |c| to_json(c));
    let n = ctx.tier.pick(30_000u64, 600_000);
    ctx.run_gen(
        "expressions",
        exprs,
        n,
        |es| match make_case_full(es) {
            Ok(Some(c)) => check_on(shared_db(), &c),
            Ok(None) => CaseReport::discard("", "reference-unspecified"),
            Err((sig, detail)) => CaseReport::fail(detail["query"].as_str().unwrap_or("").to_string(), sig, detail),
        },
        |es| make_case(es).map(|c| to_json(&c)).unwrap_or(Value::Null),
    );
    {
        let p = pool();
        ctx.run_enum("number-juxtaposed-with-a-phrase", p.all.len() as u64, |i| Some(p.all[i as usize].0.clone()), |ph| juxtaposed(ph), |ph| json!({"juxtaposed": ph}));
    }
    // histories
    let nh = ctx.tier.pick(160usize, 3000);
    let per_shard = (nh + ctx.threads - 1) / ctx.threads;
    let pool_q: Vec<DCase> = ctx.sample_values("history-queries", &exprs(), 400).iter().filter_map(|es| make_case(es)).collect();
    // clusters of confusable phrases: phrases sharing a long common prefix (a lookup
    // cache keyed on a truncated or normalised phrase would mix them up)
    let clusters: Vec<Vec<DCase>> = {
        let p = pool();
        let mut out = Vec::new();
        for i in 0..120u64 {
            let h = crate::runner::derive_seed(ctx.seed, "C18", "cluster", i as usize);
            let base = &p.all[(h % p.all.len() as u64) as usize].0;
            let k = [6usize, 10, 14, 16, 18, 22][((h >> 20) % 6) as usize].min(base.len());
            let Some(prefix) = base.get(..k) else { continue };
            let mut members: Vec<&String> = p.all.iter().map(|x| &x.0).filter(|q| q.starts_with(prefix)).collect();
            members.sort();
            members.dedup();
            if members.len() < 2 {
                continue;
            }
            let start = ((h >> 32) as usize) % members.len();
            let picked: Vec<DCase> = (0..members.len().min(5)).filter_map(|j| make_case(&[Expr::Fact(members[(start + j) % members.len()].clone())])).collect();
            if picked.len() >= 2 {
                out.push(picked);
            }
        }
        out
    };
    // clusters of phrases that differ only in letter case or in the case of an inserted and/or/not
    // (the search engine's query syntax gives AND / OR / NOT a meaning that and / or / not lack):
    // a lookup cache keyed on a normalised phrase would hand one member the other's constant
    let mut clusters = clusters;
    {
        let p = pool();
        for i in 0..120u64 {
            let h = crate::runner::derive_seed(ctx.seed, "C18", "case-cluster", i as usize);
            let base = &p.all[(h % p.all.len() as u64) as usize].0;
            let words: Vec<&str> = base.split(' ').collect();
            let mut members: Vec<String> = Vec::new();
            if words.len() >= 2 {
                let at = 1 + ((h >> 20) as usize) % (words.len() - 1);
                let opw = ["not", "and", "or"][((h >> 40) % 3) as usize];
                for o in [opw.to_string(), opw.to_uppercase()] {
                    let mut w: Vec<String> = words.iter().map(|s| s.to_string()).collect();
                    w.insert(at, o);
                    members.push(w.join(" "));
                }
            }
            members.push(base.to_uppercase());
            members.push(base.clone());
            let picked: Vec<DCase> = members.iter().filter_map(|m| make_case(&[Expr::Fact(m.clone())])).collect();
            if picked.len() >= 2 {
                clusters.push(picked);
            }
        }
    }
    ctx.put("confusable_phrase_clusters", json!(clusters.len()));
    std::thread::scope(|s| {
        for shard in 0..ctx.threads {
            let pool_q = &pool_q;
            let clusters = &clusters;
            s.spawn(move || {
                for h in 0..per_shard {
                    let hid = (shard * per_shard + h) as u64;
                    let mut x = crate::runner::derive_seed(ctx.seed, "C18", "history", hid as usize);
                    let mut next = || {
                        x = x.wrapping_mul(6364136223846793005).wrapping_add(1442695040888963407);
                        (x >> 33) as usize
                    };
                    let len = 5 + next() % 26;
                    let mut qs: Vec<&DCase> = (0..len).map(|_| &pool_q[next() % pool_q.len()]).collect();
                    // a cluster of confusable phrases, scattered
                    if !clusters.is_empty() && next() % 10 < 8 {
                        let cl = &clusters[next() % clusters.len()];
                        for c in cl {
                            let at = next() % (qs.len() + 1);
                            qs.insert(at, c);
                        }
                    }
                    // force a repeat
                    let r = qs[next() % qs.len()];
                    qs.push(r);
                    let hist: Vec<String> = qs.iter().map(|c| c.query.clone()).collect();
                    let rep = guarded(&format!("history {}", hid), || history(&qs));
                    let rep = match rep {
                        Ok(r) => r,
                        Err(p) => CaseReport::fail(format!("history {}", hid), "panic", json!({"history": hist, "panic": p})),
                    };
                    ctx.record_case("histories", rep, json!({"history": hist}));
                    // a second history of bare lookups: phrases that are found, phrases the search engine rejects
                    // (a dangling AND / OR / NOT), phrases that find nothing — each repeated two or three times in a
                    // row right after another kind, as separate queries and as several results of one query
                    let p = pool();
                    let found = |k: usize| p.all[k % p.all.len()].0.clone();
                    let mut raw: Vec<String> = Vec::new();
                    for _ in 0..(3 + next() % 5) {
                        let base = found(next());
                        let word = base.split(' ').next().unwrap_or("mass").to_string();
                        let bad = match next() % 6 {
                            0 => format!("{} OR", word),
                            1 => format!("NOT {}", word),
                            2 => "AND".to_string(),
                            3 => format!("{} AND", base),
                            4 => "zzzzqq xqxqx".to_string(),
                            _ => format!("OR {}", word),
                        };
                        let reps = 2 + next() % 2;
                        if next() % 2 == 0 {
                            raw.push(base.clone());
                            for _ in 0..reps {
                                raw.push(bad.clone());
                            }
                        } else {
                            raw.push(format!("({}) {}", base, vec![format!("({})", bad); reps].join(" ")));
                        }
                        if next() % 3 == 0 {
                            raw.push(found(next()));
                        }
                    }
                    let rep = guarded(&format!("raw history {}", hid), || raw_history(&raw));
                    let rep = match rep {
                        Ok(r) => r,
                        Err(p) => CaseReport::fail(format!("raw history {}", hid), "panic", json!({"history": raw, "panic": p})),
                    };
                    ctx.record_case("histories-of-bare-lookups", rep, json!({"history": raw}));
                }
            });
        }
    });
}

/// One history: the queries in the given order against one fresh database, in
/// reversed order against a second one; every query must give what it gives
/// as the first query of a fresh instance (checked for the first of each order
/// and against the long-lived shared instance for all).
fn history(qs: &[&DCase]) -> CaseReport {
    let key = qs.iter().map(|c| c.query.as_str()).collect::<Vec<_>>().join(" ;; ");
    let db1 = match Db::in_memory() {
        Ok(d) => d,
        Err(e) => return CaseReport::fail(key, "db-build-failed", json!(e.to_string())),
    };
    let db2 = match Db::in_memory() {
        Ok(d) => d,
        Err(e) => return CaseReport::fail(key, "db-build-failed", json!(e.to_string())),
    };
    let shared = shared_db();
    let mut first: Vec<Vec<R>> = Vec::new();
    for c in qs {
        let rep = check_on(&db1, c);
        if let crate::runner::Verdict::Fail { sig, detail } = rep.verdict {
            return CaseReport::fail(key, format!("history:{}", sig), detail);
        }
        first.push(run_full(&db1, &c.query, false).map(|r| r.results).unwrap_or_default());
    }
    for (i, c) in qs.iter().enumerate().rev() {
        let r2 = run_full(&db2, &c.query, true).map(|r| r.results).unwrap_or_default();
        let r3 = run_full(shared, &c.query, false).map(|r| r.results).unwrap_or_default();
        if !same_results(&first[i], &r2) || !same_results(&first[i], &r3) {
            return CaseReport::fail(
                key,
                "history-changes-a-result",
                json!({"query": c.query, "position": i, "in_order": results_json(&first[i]), "reversed_order_fresh_db": results_json(&r2), "shared_db": results_json(&r3)}),
            );
        }
    }
    CaseReport::pass(key, true, vec!["history"])
}

/// A history of bare query strings on one database: every query must give what it gives on the long-lived shared
/// instance and on a second instance that sees the history in reverse order; with descriptions on and off.
fn raw_history(qs: &[String]) -> CaseReport {
    let key = qs.join(" ;; ");
    let (db1, db2) = match (Db::in_memory(), Db::in_memory()) {
        (Ok(a), Ok(b)) => (a, b),
        _ => return CaseReport::fail(key, "db-build-failed", json!({})),
    };
    let shared = shared_db();
    let a: Vec<Vec<R>> = qs.iter().enumerate().map(|(i, q)| run_full(&db1, q, i % 2 == 0).map(|r| r.results).unwrap_or_default()).collect();
    for (i, q) in qs.iter().enumerate().rev() {
        let b = run_full(&db2, q, i % 2 == 1).map(|r| r.results).unwrap_or_default();
        let c = run_full(shared, q, false).map(|r| r.results).unwrap_or_default();
        if !same_results(&a[i], &b) || !same_results(&a[i], &c) {
            return CaseReport::fail(key, "history-changes-a-result", json!({"query": q, "position": i, "in_order": results_json(&a[i]), "reversed_order_fresh_db": results_json(&b), "shared_db": results_json(&c), "history": qs}));
        }
    }
    CaseReport::pass(key, true, vec!["history-of-bare-lookups"])
}

pub fn replay(ctx: &Ctx, case: &Value) {
    if let Some(ph) = case.get("juxtaposed").and_then(|v| v.as_str()) {
        ctx.run_list("replay", &[ph.to_string()], |ph| juxtaposed(ph), |ph| json!({"juxtaposed": ph}));
        return;
    }
    if let Some(h) = case.get("history") {
        // re-run the history: queries are re-derived from their text against the reference
        let qs: Vec<String> = serde_json::from_value(h.clone()).expect("history of query strings");
        let cases: Vec<DCase> = qs.iter().map(|q| DCase { query: q.clone(), parts: vec![], nontrivial: false }).collect();
        // without stored expectations only order-independence can be replayed
        let db1 = Db::in_memory().unwrap();
        let db2 = Db::in_memory().unwrap();
        let a: Vec<Vec<R>> = cases.iter().map(|c| run_full(&db1, &c.query, true).map(|r| r.results).unwrap_or_default()).collect();
        let mut ok = true;
        for (i, c) in cases.iter().enumerate().rev() {
            let b = run_full(&db2, &c.query, false).map(|r| r.results).unwrap_or_default();
            if !same_results(&a[i], &b) {
                ok = false;
            }
        }
        let rep = if ok { CaseReport::pass("history", true, vec![]) } else { CaseReport::fail("history", "history-changes-a-result", json!({"history": qs})) };
        ctx.record_case("replay", rep, case.clone());
        return;
    }
    let c: DCase = serde_json::from_value(case.clone()).expect("replay file holds a C18 case");
    ctx.run_list("replay", &[c], |c| check_on(shared_db(), c), |c| to_json(c));
}
