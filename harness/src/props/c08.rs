//! C08 Printed decimals are faithful and never silently truncated.

use super::common::*;
use crate::decimal::parse_printed;
use crate::runner::{guarded, CaseReport, Ctx};
use crate::tool::pow10;
use anything::rational::DisplaySpec;
use num::{BigInt, BigRational, Signed, Zero};
use proptest::prelude::*;
use serde::{Deserialize, Serialize};
use serde_json::{json, Value};

#[derive(Clone, Debug, Serialize, Deserialize)]
pub struct DCase {
    pub numer: String,
    pub denom: String,
    pub limit: usize,
    pub exponent_limit: usize,
    pub show_continuation: bool,
    /// multiply numerator and denominator by this (possibly negative) integer and hand the pair to the
    /// library through its JSON decoder, which neither reduces nor normalises the sign: the same number
    /// in another representation (0 = construct with `Rational::new`)
    #[serde(default)]
    pub raw_scale: i32,
}

impl DCase {
    fn new(v: &BigRational, limit: usize, e: usize, c: bool) -> DCase {
        DCase { numer: v.numer().to_string(), denom: v.denom().to_string(), limit, exponent_limit: e, show_continuation: c, raw_scale: 0 }
    }
    fn value(&self) -> BigRational {
        BigRational::new(self.numer.parse().unwrap(), self.denom.parse().unwrap())
    }
}

fn terminating(v: &BigRational) -> bool {
    let mut d = v.denom().clone();
    for p in [2u32, 5] {
        let p = BigInt::from(p);
        while (&d % &p).is_zero() {
            d /= &p;
        }
    }
    d == BigInt::from(1)
}

pub fn check(c: &DCase) -> CaseReport {
    let x = c.value();
    let key = format!("{}/{}@{},{},{}{}", c.numer, c.denom, c.limit, c.exponent_limit, c.show_continuation, if c.raw_scale != 0 { format!(" x{}", c.raw_scale) } else { String::new() });
    let text = match guarded(&key, || {
        let r = if c.raw_scale == 0 {
            anything::Rational::new(x.numer().clone(), x.denom().clone())
        } else {
            let k = BigInt::from(c.raw_scale);
            let text = serde_json::to_string(&(x.numer() * &k, x.denom() * &k)).expect("pair of big integers as JSON");
            match serde_json::from_str::<anything::Rational>(&text) {
                Ok(r) => r,
                Err(e) => return format!("\u{0}DECODE-FAILED\u{0}{}\u{0}{}", text, e),
            }
        };
        let mut spec = DisplaySpec::default();
        spec.limit = c.limit;
        spec.exponent_limit = c.exponent_limit;
        spec.show_continuation = c.show_continuation;
        // the formatter object is used twice: formatting must not use anything up
        let d = r.display(&spec);
        let first = d.to_string();
        let second = format!("{}", d);
        if first != second {
            return format!("\u{0}FORMATTED-TWICE\u{0}{}\u{0}{}", first, second);
        }
        first
    }) {
        Ok(t) if t.starts_with("\u{0}DECODE-FAILED") => {
            return CaseReport::fail(key, "rational-json-does-not-decode", json!({"case": c, "detail": t.replace('\u{0}', " | ")}));
        }
        Ok(t) if t.starts_with("\u{0}FORMATTED-TWICE") => {
            let parts: Vec<&str> = t.split('\u{0}').collect();
            return CaseReport::fail(key, "same-formatter-prints-differently-the-second-time", json!({"case": c, "first": parts.get(2), "second": parts.get(3)}));
        }
        Ok(t) => t,
        Err(p) => return CaseReport::fail(key, format!("panic:{}", panic_site(&p)), json!({"case": c, "panic": p})),
    };
    let fail = |sig: &str, why: String| CaseReport::fail(key.clone(), sig, json!({"case": c, "value": x.to_string(), "text": text, "why": why}));
    let p = match parse_printed(&text) {
        Some(p) => p,
        None => return fail("unparsable-text", "printed text is not of the form -?digits[.digits][…][e-?N]".into()),
    };
    if p.mark && !c.show_continuation {
        return fail("mark-while-disabled", "continuation mark printed although disabled".into());
    }
    // sign
    if x.is_negative() != p.neg {
        return fail("wrong-sign", format!("value sign {} but text sign {}", if x.is_negative() { "-" } else { "+" }, if p.neg { "-" } else { "+" }));
    }
    let ax = x.abs();
    let ap = p.abs_value();
    let ulp = p.ulp();
    if ap > ax {
        return fail("printed-exceeds-value", format!("|printed| {} > |value| {}", ap, ax));
    }
    if ax >= &ap + &ulp {
        return fail("not-cut-at-last-digit", format!("|value| {} >= |printed| {} + one unit in the last place {}", ax, ap, ulp));
    }
    let cut = ax != ap;
    if c.show_continuation {
        if cut && !p.mark {
            return fail("silent-truncation", format!("non-zero digits were cut off but no mark: text {} value {}", text, x));
        }
        if !cut && p.mark {
            return fail("mark-without-truncation", format!("mark although nothing but zeros follows: text {} value {}", text, x));
        }
    }
    // classes per code path
    let mut classes = vec![];
    let path = if p.exp > 0 {
        "scientific-big"
    } else if p.exp < 0 {
        "scientific-small"
    } else if ax < BigRational::from_integer(1.into()) && !ax.is_zero() {
        "leading-zero-fraction"
    } else {
        "plain"
    };
    classes.push(path);
    if cut {
        classes.push("digits-cut");
    }
    if terminating(&x) {
        classes.push("terminating");
    } else {
        classes.push("repeating");
    }
    CaseReport::pass(key, cut || p.exp != 0, classes)
}

fn rational() -> impl Strategy<Value = BigRational> {
    let digits = |max: usize| prop::collection::vec(0u8..10, 1..=max).prop_map(|v| v.into_iter().map(|d| (b'0' + d) as char).collect::<String>());
    let term = (digits(45), -45i64..=45, any::<bool>()).prop_map(|(d, e, neg)| {
        let m: BigInt = d.parse().unwrap();
        let v = BigRational::from_integer(m) * pow10(e);
        if neg {
            -v
        } else {
            v
        }
    });
    let rep = (digits(30), digits(12), -40i64..=40, any::<bool>()).prop_map(|(n, d, e, neg)| {
        let n: BigInt = n.parse().unwrap();
        let mut d: BigInt = d.parse().unwrap();
        if d.is_zero() {
            d = BigInt::from(7);
        }
        let v = BigRational::new(n, d) * pow10(e);
        if neg {
            -v
        } else {
            v
        }
    });
    prop_oneof![term, rep]
}

/// Values built from the spec: exactly L, L+1, L+2 significant digits, integer
/// parts with E-1, E, E+1 digits, zero tails, fractions just past an integer mantissa.
fn boundary() -> impl Strategy<Value = DCase> {
    (1usize..=20, 1usize..=15, any::<bool>(), 0usize..=3, -1i64..=2, prop::collection::vec(0u8..10, 40), 0usize..6, any::<bool>()).prop_map(|(l, e, cont, dl, de, digs, kind, neg)| {
        // number of significant digits
        let nsig = (l + dl).max(1);
        let mut ds: Vec<u8> = digs.iter().cycle().take(nsig).copied().collect();
        if ds[0] == 0 {
            ds[0] = 1;
        }
        match kind {
            0 => {}
            1 => {
                // zero tail: 1000...0
                for d in ds.iter_mut().skip(1) {
                    *d = 0;
                }
            }
            2 => {
                // all nines
                for d in ds.iter_mut() {
                    *d = 9;
                }
            }
            3 => {
                // zeros then a last non-zero digit just past the budget
                for d in ds.iter_mut().skip(1) {
                    *d = 0;
                }
                let n = ds.len();
                ds[n - 1] = 1;
            }
            4 => {
                // last digit zero (terminates exactly one digit early)
                let n = ds.len();
                ds[n - 1] = 0;
            }
            _ => {}
        }
        let m: BigInt = ds.iter().map(|d| (b'0' + d) as char).collect::<String>().parse().unwrap();
        // place the decimal point so the integer part has e + de digits (may be <= 0: small values)
        let int_digits = e as i64 + de - if kind == 5 { e as i64 + 3 } else { 0 };
        let v = BigRational::from_integer(m) * pow10(int_digits - nsig as i64);
        let v = if neg { -v } else { v };
        DCase::new(&v, l, e, cont)
    })
}

/// Decimal expansions with a long run of one digit (nines or zeros, sometimes another digit): a few leading
/// digits, a run of 15-45 equal digits, a short tail; the decimal point anywhere from far left to far
/// right.  This is where an implementation that estimates digits (from leading bits, from a float) goes
/// wrong by one, and where denominators exceed a machine word.
fn digit_runs() -> impl Strategy<Value = DCase> {
    (
        prop::collection::vec(0u8..10, 0..=6),
        prop_oneof![4 => Just(9u8), 3 => Just(0u8), 1 => 1u8..=8],
        15usize..=45,
        prop::collection::vec(0u8..10, 0..=6),
        -6i64..=52,
        any::<bool>(),
        prop::option::weighted(0.3, prop_oneof![Just(3u32), Just(7), Just(11), Just(13), Just(64), Just(125)]),
        1usize..=20,
        1usize..=15,
        prop::bool::weighted(0.85),
    )
        .prop_map(|(head, d, run, tail, point, neg, div, l, e, cont)| {
            let mut ds: Vec<u8> = head;
            if ds.first().copied().unwrap_or(0) == 0 {
                ds.insert(0, 1 + d % 9);
            }
            ds.extend(std::iter::repeat(d).take(run));
            ds.extend(tail);
            let m: BigInt = ds.iter().map(|x| (b'0' + x) as char).collect::<String>().parse().unwrap();
            // `point` integer digits (<= 0: that many zeros between the point and the first digit)
            let mut v = BigRational::from_integer(m) * pow10(point - ds.len() as i64);
            if let Some(q) = div {
                v = v / BigRational::from_integer(BigInt::from(q));
            }
            let v = if neg { -v } else { v };
            DCase::new(&v, l, e, cont)
        })
}

const SPECS: [(usize, usize); 12] = [(6, 8), (12, 12), (1, 1), (1, 15), (20, 1), (20, 15), (3, 4), (8, 2), (2, 9), (5, 5), (10, 3), (15, 7)];

pub fn run_check(ctx: &Ctx) {
    ctx.set_rule("values: exhaustive grid n/d (n in -N..N, d in 1..D), random terminating and repeating rationals 1e-45..1e45, and budget-boundary values built from the spec (exactly L, L+1.. significant digits; integer parts with E-1, E, E+1 digits; zero tails; all nines), and decimal expansions with a run of 15-45 equal digits (nines, zeros) at any position relative to the point, also divided by 3, 7, 11, 13, 64, 125; specs: limit 1..20 x exponent threshold 1..15 x continuation on/off (and a class with limits up to 45 and thresholds 16..64); each formatter object is printed twice and must give the same text; a class of values arrives through the JSON decoder unreduced and with the sign in the denominator; oracle: text parses as -?d[.d][…][e-?N], sign matches, |printed| <= |value| < |printed| + one unit in the last place, mark present iff something non-zero was cut; non-trivial = digits were cut or the scientific path was taken; distinct by (value, spec)");
    let corpus: Vec<(String, DCase)> = load_corpus("C08");
    let cases: Vec<DCase> = corpus.into_iter().map(|c| c.1).collect();
    ctx.run_list("corpus", &cases, check, |c| to_json(c));

    let (nn, dd) = ctx.tier.pick((150i64, 150i64), (300, 300));
    let nspec = SPECS.len() as u64;
    let width = (2 * nn + 1) as u64;
    let per_case_specs = ctx.tier.pick(2u64, nspec);
    ctx.run_enum(
        "grid",
        width * dd as u64 * per_case_specs,
        |i| {
            let s = i % per_case_specs;
            let j = i / per_case_specs;
            let n = (j % width) as i64 - nn;
            let d = (j / width) as i64 + 1;
            // rotate through the 12 sampled specs so that every value meets several
            let (l, e) = SPECS[((s + j) % nspec) as usize];
            let v = BigRational::new(BigInt::from(n), BigInt::from(d));
            Some(DCase::new(&v, l, e, (j + s) % 5 != 0))
        },
        check,
        |c| to_json(c),
    );
    let n = ctx.tier.pick(1_500_000u64, 20_000_000);
    ctx.run_gen("boundary", boundary, n, check, |c| to_json(c));
    ctx.run_gen("digit-runs", digit_runs, n / 6, check, |c| to_json(c));
    // the same numbers as the JSON decoder hands them over: unreduced, possibly with the sign in the denominator
    ctx.run_gen(
        "decoded-representations",
        || {
            (prop_oneof![rational(), boundary().prop_map(|c| c.value())], 1usize..=20, 1usize..=15, prop::bool::weighted(0.85), prop_oneof![Just(-1i32), Just(-3), Just(2), Just(10), Just(-1000)]).prop_map(|(v, l, e, c, k)| {
                let mut d = DCase::new(&v, l, e, c);
                d.raw_scale = k;
                d
            })
        },
        n / 6,
        check,
        |c| to_json(c),
    );
    // the statement says "every display precision": limits and thresholds beyond the quantifier's 20 / 15
    // (plain notation asked for everything: thresholds up to 64) on the same value families
    ctx.run_gen(
        "wide-specs",
        || (prop_oneof![rational(), digit_runs().prop_map(|c| c.value())], 1usize..=45, 16usize..=64, prop::bool::weighted(0.85)).prop_map(|(v, l, e, c)| DCase::new(&v, l, e, c)),
        n / 6,
        check,
        |c| to_json(c),
    );
    ctx.run_gen(
        "random",
        || (rational(), 1usize..=20, 1usize..=15, prop::bool::weighted(0.85)).prop_map(|(v, l, e, c)| DCase::new(&v, l, e, c)),
        n,
        check,
        |c| to_json(c),
    );
    if ctx.tier == crate::runner::Tier::Thorough {
        // full 300-spec cross product on a fixed boundary value family
        let vals: Vec<BigRational> = {
            let mut v = vec![];
            for k in -25i64..=25 {
                for m in ["1", "9", "15", "1000001", "999999", "123456789", "99999999999999999999", "100000000000000000001"] {
                    let mm: BigInt = m.parse().unwrap();
                    v.push(BigRational::from_integer(mm.clone()) * pow10(k));
                    v.push(-(BigRational::from_integer(mm) * pow10(k)) / BigRational::from_integer(3.into()));
                }
            }
            v
        };
        let total = vals.len() as u64 * 20 * 15 * 2;
        ctx.run_enum(
            "spec-cross-product",
            total,
            |i| {
                let c = i % 2 == 0;
                let e = ((i / 2) % 15) as usize + 1;
                let l = ((i / 30) % 20) as usize + 1;
                let v = &vals[(i / 600) as usize];
                Some(DCase::new(v, l, e, c))
            },
            check,
            |c| to_json(c),
        );
    }
}

pub fn replay(ctx: &Ctx, case: &Value) {
    let c: DCase = serde_json::from_value(case.clone()).expect("replay file holds a DCase");
    ctx.run_list("replay", &[c], check, |c| to_json(c));
}
