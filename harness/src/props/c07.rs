//! C07 Decimal literals are read exactly.

use super::common::*;
use crate::decimal::parse_literal;
use crate::gen::{self, LitCfg};
use crate::runner::{guarded, CaseReport, Ctx};
use crate::tool::{run, shared_db, to_big, R};
use num::{BigRational, Zero};
use proptest::prelude::*;
use serde::{Deserialize, Serialize};
use serde_json::{json, Value};

#[derive(Clone, Debug, Serialize, Deserialize)]
pub struct LitCase {
    pub lit: String,
}

const FULL: &[u8] = b"0123456789+-.eE%";
const REDUCED: &[u8] = b"0159+-.eE%";

fn classify(s: &str) -> (bool, Vec<&'static str>) {
    let mut c = vec![];
    let body = s.trim_start_matches(|ch| ch == '+' || ch == '-');
    if s.starts_with('-') || s.starts_with('+') {
        c.push("signed");
    }
    if s.contains('.') {
        c.push("fraction-point");
    }
    if s.contains('e') || s.contains('E') {
        c.push("exponent");
    }
    if body.len() > 1 && body.starts_with('0') && body.as_bytes()[1].is_ascii_digit() {
        c.push("leading-zero");
    }
    if s.ends_with('%') {
        c.push("percent");
    }
    if body.starts_with('.') {
        c.push("no-integer-digits");
    }
    if s.contains(".e") || s.contains(".E") || s.ends_with('.') || s.ends_with(".%") {
        c.push("no-fraction-digits");
    }
    if s.len() > 20 {
        c.push("long");
    }
    (!c.is_empty(), c)
}

fn one_plain(rs: &Result<Vec<R>, String>) -> Result<BigRational, String> {
    match rs {
        Err(p) => Err(format!("panic: {}", p)),
        Ok(v) if v.len() == 1 => match &v[0] {
            R::Ok(val) if val.unit.is_empty() => Ok(val.value.clone()),
            R::Ok(val) => Err(format!("unexpected unit {}", val.unit_text)),
            R::Err { msg, .. } => Err(format!("error: {}", msg)),
        },
        Ok(v) => Err(format!("{} results: {}", v.len(), results_json(v))),
    }
}

/// `<0*N>` inside a case's text stands for N zeros (keeps evidence and replay files small for the giant literals).
pub fn expand(lit: &str) -> String {
    let mut out = String::new();
    let mut rest = lit;
    while let Some(i) = rest.find("<0*") {
        out.push_str(&rest[..i]);
        let tail = &rest[i + 3..];
        match tail.find('>') {
            Some(j) => {
                let n: usize = tail[..j].parse().unwrap_or(0);
                out.push_str(&"0".repeat(n));
                rest = &tail[j + 1..];
            }
            None => {
                out.push_str(&rest[i..]);
                rest = "";
            }
        }
    }
    out.push_str(rest);
    out
}

/// A literal whose exponent does not fit 32 bits (2^32 and beyond, either sign): its exact value with a non-zero
/// mantissa cannot be held in memory, so every entry point must refuse it; handing out a number (the mantissa,
/// the mantissa scaled by the exponent modulo 2^32, zero …) would be reading it wrongly.  With a zero mantissa
/// the exact value is zero and zero is accepted as well.
fn check_exponent_beyond_32_bits(s: &str) -> CaseReport {
    let db = shared_db();
    let mantissa_is_zero = s.split(|c| c == 'e' || c == 'E').next().map(|m| !m.bytes().any(|b| (b'1'..=b'9').contains(&b))).unwrap_or(false);
    let judge_value = |obs: &str, v: Option<BigRational>| -> Option<CaseReport> {
        match v {
            None => None,
            Some(x) if mantissa_is_zero && x.is_zero() => None,
            Some(x) => Some(CaseReport::fail(s, "exponent-beyond-32-bits-read-as-a-number", json!({"literal": s, "observation": obs, "got": x.to_string().chars().take(200).collect::<String>()}))),
        }
    };
    let bare = s.trim_end_matches('%');
    if bare.len() == s.len() {
        match guarded(s, || s.parse::<anything::Rational>().ok().map(|r| crate::tool::to_big(&r))) {
            Err(p) => return CaseReport::fail(s, "panic", json!({"literal": s, "panic": p})),
            Ok(v) => {
                if let Some(f) = judge_value("str::parse::<Rational>", v) {
                    return f;
                }
            }
        }
    }
    for (obs, q) in [("query", s.to_string()), ("left-operand", format!("{} + 1", s)), ("right-operand", format!("2 * {}", s))] {
        match run(db, &q) {
            Err(p) => return CaseReport::fail(s, "panic", json!({"literal": s, "query": q, "panic": p})),
            Ok(rs) => {
                let v = match rs.as_slice() {
                    [R::Ok(v)] if obs == "query" => Some(v.value.clone()),
                    [R::Ok(v)] if obs == "left-operand" => Some(&v.value - crate::tool::big(1)),
                    [R::Ok(v)] => Some(&v.value / crate::tool::big(2)),
                    _ => None,
                };
                if let Some(f) = judge_value(obs, v) {
                    return f;
                }
            }
        }
    }
    CaseReport::pass(s, true, vec!["exponent-beyond-32-bits"])
}

fn exponents_beyond_32_bits() -> Vec<LitCase> {
    let mut v = Vec::new();
    let exps = ["4294967296", "4294967297", "4294967306", "8589934592", "8589934593", "42949672960", "99999999999", "9223372036854775807", "9223372036854775808", "18446744073709551615", "18446744073709551616", "18446744073709551617", "340282366920938463463374607431768211456", "00004294967296", "4294967296000"];
    for e in exps {
        for m in ["1", "25", "1.5", "0.001", "7.", ".5", "0", "0.0", "123456789012345678901234567890"] {
            for sign in ["", "+", "-"] {
                for ee in ["e", "E"] {
                    v.push(LitCase { lit: format!("{}{}{}{}", m, ee, sign, e) });
                }
            }
        }
        v.push(LitCase { lit: format!("1.5e+{}%", e) });
        v.push(LitCase { lit: format!("-3e{}", e) });
    }
    v
}

pub fn check(c: &LitCase) -> CaseReport {
    if c.lit.starts_with("beyond32:") {
        return check_exponent_beyond_32_bits(&c.lit["beyond32:".len()..]);
    }
    let expanded = expand(&c.lit);
    let s = &expanded;
    let want = match parse_literal(s) {
        Some(v) => v,
        None => return CaseReport::discard(s, "ill-formed (outside the statement)"),
    };
    let (nt, mut classes) = classify(s);
    let db = shared_db();
    // one case in eight follows a string the number parser refuses (result ignored): what a failed parse
    // leaves behind must not leak into the next literal
    {
        let h = s.bytes().fold(0xcbf29ce484222325u64, |h, b| (h ^ b as u64).wrapping_mul(0x100000001b3));
        if h % 8 == 0 {
            const JUNK: [&str; 8] = ["12x", "1e99999999999", "7e4294967296", "1.2.3", "1e", "--1", "5e-", "9999999999x9"];
            let j = JUNK[((h >> 8) % 8) as usize];
            let _ = guarded(j, || j.parse::<anything::Rational>().is_ok());
            let _ = run(db, j);
            classes.push("after-a-refused-literal");
        }
    }
    let fail = |sig: &str, obs: &str, got: String| {
        CaseReport::fail(s, sig, json!({"literal": s, "observation": obs, "expected": want.to_string(), "got": got}))
    };
    // (1) the library's number parser (no percent sign there)
    if !s.ends_with('%') {
        match guarded(s, || s.parse::<anything::Rational>().map(|r| to_big(&r)).map_err(|e| e.to_string())) {
            Err(p) => return fail("parser-panic", "str::parse::<Rational>", p),
            Ok(Err(e)) => return fail("parser-rejects", "str::parse::<Rational>", e),
            Ok(Ok(v)) => {
                if v != want {
                    return fail("parser-wrong-value", "str::parse::<Rational>", v.to_string());
                }
            }
        }
    }
    // (2) bare query
    match one_plain(&run(db, s)) {
        Ok(v) if v == want => {}
        Ok(v) => return fail("query-wrong-value", "query(lit)", v.to_string()),
        Err(e) => return fail("query-not-a-number", "query(lit)", e),
    }
    // (3) operand position
    let q = format!("{} * 1", s);
    match one_plain(&run(db, &q)) {
        Ok(v) if v == want => {}
        Ok(v) => return fail("operand-wrong-value", "query(lit * 1)", v.to_string()),
        Err(e) => return fail("operand-not-a-number", "query(lit * 1)", e),
    }
    // (4) right operand position, after a blank
    let q = format!("0 + {}", s);
    match one_plain(&run(db, &q)) {
        Ok(v) if v == want => {}
        Ok(v) => return fail("right-operand-wrong-value", "query(0 + lit)", v.to_string()),
        Err(e) => return fail("right-operand-not-a-number", "query(0 + lit)", e),
    }
    // (5) after a literal the number parser refuses, in the same query (two results: an error, then the value)
    let q = format!("(1e99999999999) ({})", s);
    match run(db, &q) {
        Ok(rs) if rs.len() == 2 => match &rs[1] {
            crate::tool::R::Ok(v) if v.unit.is_empty() && v.value == want => {}
            other => return fail("wrong-value-after-a-refused-literal", "query((refused) (lit))", other.brief()),
        },
        Ok(rs) => return fail("wrong-value-after-a-refused-literal", "query((refused) (lit))", format!("{} results", rs.len())),
        Err(p) => return fail("panic", "query((refused) (lit))", p),
    }
    CaseReport::pass(s, nt, classes)
}

/// Number of digits of the literal's exponent (0 without one).
fn exponent_digits(s: &str) -> usize {
    match s.find(|c| c == 'e' || c == 'E') {
        Some(i) => s[i + 1..].chars().filter(|c| c.is_ascii_digit()).count(),
        None => 0,
    }
}

fn nth_string(alpha: &[u8], len: usize, mut idx: u64) -> String {
    let k = alpha.len() as u64;
    let mut b = vec![0u8; len];
    for i in (0..len).rev() {
        b[i] = alpha[(idx % k) as usize];
        idx /= k;
    }
    String::from_utf8(b).unwrap()
}

/// Cheap pre-filter so the enumeration does not allocate for hopeless strings.
fn plausible(s: &str) -> bool {
    let b = s.as_bytes();
    // sign only first or right after e/E; % only last
    for (i, ch) in b.iter().enumerate() {
        match ch {
            b'+' | b'-' => {
                if i != 0 && !(b[i - 1] == b'e' || b[i - 1] == b'E') {
                    return false;
                }
            }
            b'%' => {
                if i != b.len() - 1 {
                    return false;
                }
            }
            _ => {}
        }
    }
    true
}

pub fn run_check(ctx: &Ctx) {
    ctx.set_rule("every well-formed literal (sign? digits [. digits*] | . digits+, optional exponent with optional sign, optional %) up to the stated length is enumerated; each is read by str::parse::<Rational>, as a bare query, as a left operand (lit * 1) and as a right operand (0 + lit), all compared with an independent decimal reader; literals whose exponent does not fit 32 bits (2^32 .. 2^128, both signs) must be refused at every entry point (zero mantissa: refused or zero); non-trivial = has sign, point, exponent, leading zero or percent; distinct by literal text");
    let corpus: Vec<(String, LitCase)> = load_corpus("C07");
    let cases: Vec<LitCase> = corpus.into_iter().map(|c| c.1).collect();
    ctx.run_list("corpus", &cases, check, |c| to_json(c));

    let max_full = ctx.tier.pick(5usize, 6);
    for len in 1..=max_full {
        let total = (FULL.len() as u64).pow(len as u32);
        ctx.run_enum(
            &format!("exhaustive-len{}", len),
            total,
            |i| {
                let s = nth_string(FULL, len, i);
                if plausible(&s) && parse_literal(&s).is_some() {
                    Some(LitCase { lit: s })
                } else {
                    None
                }
            },
            check,
            |c| to_json(c),
        );
    }
    let max_red = ctx.tier.pick(6usize, 8);
    for len in (max_full + 1)..=max_red {
        let total = (REDUCED.len() as u64).pow(len as u32);
        ctx.run_enum(
            &format!("exhaustive-reduced-digits-len{}", len),
            total,
            |i| {
                let s = nth_string(REDUCED, len, i);
                // cost bound: the tool's reader needs seconds for an exponent of five or more digits (its
                // fraction is reduced with a quadratic gcd); those literals are sampled below instead
                if exponent_digits(&s) >= 5 {
                    return None;
                }
                if plausible(&s) && parse_literal(&s).is_some() {
                    Some(LitCase { lit: s })
                } else {
                    None
                }
            },
            check,
            |c| to_json(c),
        );
    }
    ctx.exhaustive.store(true, std::sync::atomic::Ordering::Relaxed);
    ctx.put("exhaustive_scope", json!(format!("all well-formed literals of length <= {} over all ten digits, length <= {} over digits 0 1 5 9 (exponents of at most four digits; five-digit exponents are sampled)", max_full, max_red)));
    if ctx.tier == crate::runner::Tier::Thorough {
        let big: Vec<LitCase> = ["1e99999", "5e-99999", "9e+15915", ".5e-90159", "1.e10001", "-1e-55555", "+5E59195", "15e-10000", "0e-99999", "9.9e99999", "1e-99999%", "5e010000"].iter().map(|s| LitCase { lit: s.to_string() }).collect();
        ctx.run_list("five-digit-exponents", &big, check, |c| to_json(c));
    }
    // the tool's reader is quadratic in the literal length (a gcd per digit), so
    // the long class is smaller; lengths are a cost bound, not a limit of the code
    let n = ctx.tier.pick(100_000u64, 2_000_000);
    let long = LitCfg { max_int_digits: ctx.tier.pick(300, 600), max_frac_digits: ctx.tier.pick(300, 600), max_exp: 999, allow_percent: true, allow_neg: true, allow_plus: true, allow_exotic: true };
    ctx.run_gen("random-long", || gen::lit(long).prop_map(|l| LitCase { lit: l.text }), n / 40, check, |c| to_json(c));
    // exponents that do not fit 32 bits: refused at every entry point (never a number that is not the value)
    let beyond: Vec<LitCase> = exponents_beyond_32_bits().into_iter().map(|c| LitCase { lit: format!("beyond32:{}", c.lit) }).collect();
    ctx.run_list("exponents-beyond-32-bits", &beyond, check, |c| to_json(c));
    ctx.run_gen("word-boundary", || gen::word_boundary_lit().prop_map(|l| LitCase { lit: l.text }), n / 10, check, |c| to_json(c));
    // literals of more than a thousand characters with a point and an exponent, around the powers of two a
    // buffer or fast path might be sized by (the tool's reader is quadratic, so only a handful)
    let sizes: Vec<usize> = ctx.tier.pick(vec![1020usize, 1030, 1100], vec![1020, 1024, 1025, 1030, 1100, 2040, 2050, 4090, 4100]);
    let huge: Vec<LitCase> = sizes
        .iter()
        .enumerate()
        .flat_map(|(i, n)| {
            let digit = |k: usize| char::from(b'0' + ((k * 7 + i * 3 + 1) % 10) as u8);
            let ints: String = (0..n / 2).map(digit).collect();
            let frac: String = (0..n - n / 2).map(|k| digit(k + 5)).collect();
            vec![
                LitCase { lit: format!("{}.{}e{}", ints, frac, 3 + i) },
                LitCase { lit: format!("-{}.{}E-{}", ints, frac, 40 + i) },
                LitCase { lit: format!("{}{}.5e+2", "0".repeat(*n), i + 1) },
            ]
        })
        .collect();
    ctx.run_list("thousand-digit-literals", &huge, check, |c| to_json(c));
    // literals of 2^16 bytes and more (mostly zeros, so they stay cheap to read): the width in which a
    // token's length is kept must hold them
    let giant: Vec<LitCase> = [65_533usize, 65_534, 65_535, 65_536, 70_001]
        .iter()
        .flat_map(|n| vec![LitCase { lit: format!("0.<0*{}>5", n) }, LitCase { lit: format!("<0*{}>42", n) }, LitCase { lit: format!("1e<0*{}>5", n) }, LitCase { lit: format!("-<0*{}>.<0*{}>25%", n / 2, n / 2) }])
        .collect();
    ctx.run_list("sixty-five-thousand-character-literals", &giant, check, |c| to_json(c));
    let mid = LitCfg { max_int_digits: 30, max_frac_digits: 30, max_exp: 99, ..long };
    ctx.run_gen("random-mid", || gen::lit(mid).prop_map(|l| LitCase { lit: l.text }), n, check, |c| to_json(c));
}

pub fn replay(ctx: &Ctx, case: &Value) {
    let c: LitCase = serde_json::from_value(case.clone()).expect("replay file holds a LitCase");
    ctx.run_list("replay", &[c], check, |c| to_json(c));
}
