//! The shipped fact database decoded by the harness itself (db/*.bin.gz),
//! independent of the tool's index.

use crate::tool::{mirror, to_big, Mirror};
use flate2::read::GzDecoder;
use num::BigRational;
use serde::Deserialize;
use std::sync::OnceLock;

#[derive(Debug, Clone)]
pub struct Fact {
    pub file: String,
    pub tokens: Vec<String>,
    pub description: String,
    pub value: BigRational,
    pub unit: Mirror,
    pub source: Option<u64>,
    /// CBOR of the constant as stored (for round-trip checks).
    pub raw: serde_cbor::Value,
}

#[derive(Deserialize)]
struct Doc {
    #[serde(default)]
    constants: Vec<serde_cbor::Value>,
}

#[derive(Deserialize)]
struct SourcesDoc {
    #[serde(default)]
    sources: Vec<anything::Source>,
}

pub struct Facts {
    pub all: Vec<Fact>,
    pub sources: Vec<(u64, String)>,
    /// (id, description, url) of every shipped source, in file order
    pub sources_full: Vec<(u64, String, Option<String>)>,
    pub undecodable: Vec<String>,
}

pub fn facts() -> &'static Facts {
    static F: OnceLock<Facts> = OnceLock::new();
    F.get_or_init(|| {
        let mut all = Vec::new();
        let mut undecodable = Vec::new();
        let mut sources = Vec::new();
        let mut sources_full = Vec::new();
        let mut names: Vec<_> = std::fs::read_dir(format!("{}/db", crate::runner::repo_root())).expect("db dir").filter_map(|e| e.ok()).map(|e| e.path()).collect();
        names.sort();
        for p in names {
            let fname = p.file_name().unwrap().to_string_lossy().to_string();
            if !fname.ends_with(".bin.gz") {
                continue;
            }
            let bytes = std::fs::read(&p).expect("db file readable");
            if fname == "sources.bin.gz" {
                let doc: SourcesDoc = serde_cbor::from_reader(GzDecoder::new(&bytes[..])).expect("sources decode");
                for s in doc.sources {
                    sources.push((s.id, s.description.to_string()));
                    sources_full.push((s.id, s.description.to_string(), s.url.as_ref().map(|u| u.to_string())));
                }
                continue;
            }
            let doc: Doc = serde_cbor::from_reader(GzDecoder::new(&bytes[..])).expect("db file decodes as a document");
            for (i, raw) in doc.constants.into_iter().enumerate() {
                match serde_cbor::value::from_value::<anything::Constant>(raw.clone()) {
                    Ok(c) => all.push(Fact {
                        file: fname.clone(),
                        tokens: c.tokens.iter().map(|t| t.to_string()).collect(),
                        description: c.description.to_string(),
                        value: to_big(&c.value),
                        unit: mirror(&c.unit),
                        source: c.source,
                        raw,
                    }),
                    Err(e) => undecodable.push(format!("{}#{}: {}", fname, i, e)),
                }
            }
        }
        Facts { all, sources, sources_full, undecodable }
    })
}

/// Can every token be typed as a query word, and does the phrase stay a phrase?
pub fn typable(tokens: &[String]) -> bool {
    if tokens.is_empty() {
        return false;
    }
    for (i, t) in tokens.iter().enumerate() {
        if t.is_empty() || !t.chars().all(|c| c.is_ascii_alphanumeric() || c == '°' || c == '\'') {
            return false;
        }
        if t == "to" {
            return false;
        }
        if i == 0 && t.chars().next().unwrap().is_ascii_digit() {
            return false;
        }
    }
    // a single word that is a built-in function name followed by nothing is still a word; fine
    true
}

pub fn phrase(tokens: &[String]) -> String {
    tokens.join(" ")
}

/// Every shipped constant decoded by the library's own `Deserialize` straight from the bytes of the
/// data files (map keys in the order the files have them — no `serde_cbor::Value` in between), one
/// leaked copy per thread so nothing about `Constant` needs to be `Sync`.
pub fn typed_constants() -> &'static Vec<anything::Constant> {
    #[derive(Deserialize)]
    struct TDoc {
        #[serde(default)]
        constants: Vec<anything::Constant>,
    }
    thread_local! {
        static T: &'static Vec<anything::Constant> = {
            let mut out = Vec::new();
            let mut names: Vec<_> = std::fs::read_dir(format!("{}/db", crate::runner::repo_root())).expect("db dir").filter_map(|e| e.ok()).map(|e| e.path()).collect();
            names.sort();
            for p in names {
                let fname = p.file_name().unwrap().to_string_lossy().to_string();
                if !fname.ends_with(".bin.gz") || fname == "sources.bin.gz" {
                    continue;
                }
                let bytes = std::fs::read(&p).expect("db file readable");
                if let Ok(doc) = serde_cbor::from_reader::<TDoc, _>(GzDecoder::new(&bytes[..])) {
                    out.extend(doc.constants);
                }
            }
            Box::leak(Box::new(out))
        };
    }
    T.with(|t| *t)
}
