#!/bin/sh
# Offline build of the framework from files on disk only.
set -e
export CARGO_NET_OFFLINE=true
cd /verif/harness
cargo build --offline --profile dbgopt --bins
cargo build --offline --profile release --bins
echo "setup done"
