#![no_main]
//! C11: bytes -> token soup via arbitrary::Unstructured, sanitised to the stated bounds;
//! oracle in-target (validity predicate of C11).  Raw bytes are also tried as a string.
use arbitrary::Unstructured;
use libfuzzer_sys::fuzz_target;
use verif_harness::props::c11::{check_str, sanitize};
use verif_harness::runner::Verdict;
use verif_harness::tool::shared_db;

const TOKENS: &[&str] = &[
    "+", "-", "*", "/", "^", "**", "to", "%", ",", "(", ")", "{", "}", "round(", "floor(", "ceil(", "sin(", "m", "s", "kg", "km", "N", "J", "°C", "°F", "K", "c", "h", "Wb", "V", "ft", "gal", "B",
    "population", "finland", "mass", "of", "earth", "mercury", "é", "日本", "\u{a0}", "\u{3000}", "'", "°", "=", "_", ".", "e", "E", "1e", "..", "Ω", "μm", "dal", "min", "Pa", "mol", "cd",
];
const SEPS: &[&str] = &[" ", "", "  ", "\t"];

fuzz_target!(|data: &[u8]| {
    let db = shared_db();
    let mut inputs = Vec::new();
    if let Ok(s) = std::str::from_utf8(data) {
        inputs.push(sanitize(s));
    }
    let mut u = Unstructured::new(data);
    let mut s = String::new();
    let n = u.int_in_range(1..=40usize).unwrap_or(1);
    for _ in 0..n {
        if u.is_empty() {
            break;
        }
        match u.int_in_range(0..=3u8).unwrap_or(0) {
            0 => {
                let v: u32 = u.int_in_range(0..=99999).unwrap_or(0);
                s.push_str(&v.to_string());
                if u.ratio(1, 4).unwrap_or(false) {
                    s.push('.');
                    s.push_str(&u.int_in_range(0..=999u32).unwrap_or(0).to_string());
                }
                if u.ratio(1, 6).unwrap_or(false) {
                    s.push('e');
                    if u.arbitrary().unwrap_or(false) {
                        s.push('-');
                    }
                    // two-digit exponents here: a three-digit one under a power operator makes values of 10^5 digits,
                    // whose (quadratic) printing takes tens of seconds in this instrumented build
                    s.push_str(&u.int_in_range(0..=99u32).unwrap_or(0).to_string());
                }
            }
            _ => {
                let i = u.int_in_range(0..=TOKENS.len() - 1).unwrap_or(0);
                s.push_str(TOKENS[i]);
            }
        }
        let j = u.int_in_range(0..=SEPS.len() - 1).unwrap_or(0);
        s.push_str(SEPS[j]);
    }
    if std::env::var("VERIF_FUZZ_PRINT").is_ok() {
        eprintln!("RAW {:?}", s);
    }
    inputs.push(sanitize(&s));
    for inp in inputs {
        // same cost bound for the raw-bytes reading of the input
        let has_power = inp.contains('^') || inp.contains("**");
        let b = inp.as_bytes();
        let three_digit_exp = (0..b.len()).any(|i| (b[i] == b'e' || b[i] == b'E') && i > 0 && b[i - 1].is_ascii_digit() && {
            let mut j = i + 1;
            if j < b.len() && (b[j] == b'-' || b[j] == b'+') {
                j += 1;
            }
            let st = j;
            while j < b.len() && b[j].is_ascii_digit() {
                j += 1;
            }
            j - st >= 3
        });
        if has_power && three_digit_exp {
            continue;
        }
        if std::env::var("VERIF_FUZZ_PRINT").is_ok() {
            eprintln!("INPUT {}", serde_json::to_string(&inp).unwrap());
        }
        if let Verdict::Fail { sig, detail } = check_str(db, &inp).verdict {
            eprintln!("ORACLE-FAILURE {} {}", sig, detail);
            std::process::abort();
        }
    }
});
