#![no_main]
//! C07: bytes -> well-formed literal via a grammar decoder; oracle in-target (four observation points).
use arbitrary::Unstructured;
use libfuzzer_sys::fuzz_target;
use verif_harness::props::c07::{check, LitCase};
use verif_harness::runner::Verdict;

fn digits(u: &mut Unstructured, max: usize) -> String {
    let n = u.int_in_range(1..=max).unwrap_or(1);
    (0..n).map(|_| (b'0' + u.int_in_range(0..=9u8).unwrap_or(0)) as char).collect()
}

fuzz_target!(|data: &[u8]| {
    let mut u = Unstructured::new(data);
    let mut s = String::new();
    match u.int_in_range(0..=3u8).unwrap_or(0) {
        1 => s.push('-'),
        2 => s.push('+'),
        _ => {}
    }
    match u.int_in_range(0..=3u8).unwrap_or(0) {
        0 => s.push_str(&digits(&mut u, 40)),
        1 => {
            s.push_str(&digits(&mut u, 40));
            s.push('.');
            s.push_str(&digits(&mut u, 40));
        }
        2 => {
            s.push_str(&digits(&mut u, 40));
            s.push('.');
        }
        _ => {
            s.push('.');
            s.push_str(&digits(&mut u, 40));
        }
    }
    if u.ratio(1, 3).unwrap_or(false) {
        s.push(if u.arbitrary().unwrap_or(false) { 'e' } else { 'E' });
        match u.int_in_range(0..=2u8).unwrap_or(0) {
            1 => s.push('-'),
            2 => s.push('+'),
            _ => {}
        }
        s.push_str(&digits(&mut u, 3));
    }
    if u.ratio(1, 8).unwrap_or(false) {
        s.push('%');
    }
    if std::env::var("VERIF_FUZZ_PRINT").is_ok() {
        eprintln!("INPUT {}", serde_json::to_string(&s.to_string()).unwrap());
    }
    if let Verdict::Fail { sig, detail } = check(&LitCase { lit: s }).verdict {
        eprintln!("ORACLE-FAILURE {} {}", sig, detail);
        std::process::abort();
    }
});
