#![no_main]
//! C12: bytes -> string (lossy UTF-8); oracle in-target (tokens tile the input, tree leaves == tokens).
use libfuzzer_sys::fuzz_target;
use verif_harness::props::c12::check_str;
use verif_harness::runner::Verdict;

fuzz_target!(|data: &[u8]| {
    let s = String::from_utf8_lossy(data);
    if std::env::var("VERIF_FUZZ_PRINT").is_ok() {
        eprintln!("INPUT {}", serde_json::to_string(&s.to_string()).unwrap());
    }
    if let Verdict::Fail { sig, detail } = check_str(&s, true).verdict {
        eprintln!("ORACLE-FAILURE {} {}", sig, detail);
        std::process::abort();
    }
});
