#!/usr/bin/env python3
"""tools/register_seed.py <PROP> <A|B|..> <src-dir> --needs "<what it needs to manifest>" --detected "C08:signature,C19:sig" [--missed "C0x"] [--note ".."]
Copies <src-dir>/<X>.diff, <X>_demo.*, <X>.md into /verif/seeded/<PROP>-<X>/ and writes meta.json."""
import sys, os, shutil, json, glob, argparse, subprocess
ap = argparse.ArgumentParser()
ap.add_argument("prop"); ap.add_argument("tag"); ap.add_argument("src")
ap.add_argument("--needs", required=True); ap.add_argument("--detected", default=""); ap.add_argument("--missed", default="")
ap.add_argument("--note", default=""); ap.add_argument("--summary", default="")
a = ap.parse_args()
dst = f"/verif/seeded/{a.prop}-{a.tag}"
os.makedirs(dst, exist_ok=True)
shutil.copy(f"{a.src}/{a.tag}.diff", f"{dst}/patch.diff")
demo = None
for f in glob.glob(f"{a.src}/{a.tag}_demo.*"):
    demo = "demo" + os.path.splitext(f)[1]; shutil.copy(f, f"{dst}/{demo}")
if os.path.exists(f"{a.src}/{a.tag}.md"): shutil.copy(f"{a.src}/{a.tag}.md", f"{dst}/author_notes.md")
head = subprocess.check_output(["git", "-C", "/repo", "rev-parse", "HEAD"], text=True).strip()
files = sorted({l[6:].strip() for l in open(f"{dst}/patch.diff") if l.startswith("+++ b/")})
meta = {
 "id": f"{a.prop}-{a.tag}", "breaks_property": a.prop, "origin": "independent sub-agent given only the property text and a scratch worktree",
 "repo_head": head, "files_changed": files, "summary": a.summary, "needs_to_manifest": a.needs,
 "confirmed": {"how": "tools/confirm_seed.sh in a scratch worktree: demo passes on the clean tree; with the change the crate builds, the repository's own suite (cargo test --workspace --no-fail-fast --offline) passes unedited, and the demo fails",
               "result": "confirmed"},
 "checks_run": "tools/mutant_scratch.sh (scratch worktree + scratch copy of the harness; quick tier, VERIF_SEED=1)",
 "detected_by": [dict(zip(("check", "signature"), d.split(":", 1))) for d in a.detected.split(",") if d],
 "missed_by": [m for m in a.missed.split(",") if m], "note": a.note, "demo": demo,
}
json.dump(meta, open(f"{dst}/meta.json", "w"), indent=1)
print("registered", dst)
