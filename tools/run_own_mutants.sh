#!/bin/sh
# tools/run_own_mutants.sh [parallel] [name-filter] : run every hand-designed mutant against its primary checks (scratch copies)
PAR="${1:-3}"; FILTER="${2:-.}"
python3 /verif/tools/own_mutants.py emit >/dev/null || exit 2
python3 /verif/tools/own_mutants.py list | grep -E "$FILTER" | while read name checks; do echo "$name $checks"; done > /tmp/own_mutants.todo
cat /tmp/own_mutants.todo | xargs -P "$PAR" -L 1 sh -c '/verif/tools/mutant_scratch.sh "own_$0" "/verif/mutants/$0.diff" "$@" 2>&1 | grep MATRIX'
