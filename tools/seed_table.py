#!/usr/bin/env python3
"""Prints the markdown table of seeded changes (DESIGN.md section 9) from seeded/*/meta.json."""
import json, glob
rows = []
for f in sorted(glob.glob("/verif/seeded/*/meta.json")):
    m = json.load(open(f))
    det = ", ".join(f"{d['check']} (`{d['signature']}`)" for d in m["detected_by"]) or "—"
    miss = ", ".join(m["missed_by"]) or "—"
    rows.append(f"| {m['id']} | {m['summary']} | {m['needs_to_manifest']} | {det} | {miss} |")
print("| seeded change | what was changed | needs, to manifest | detected by (quick tier, first signature) | also run, silent |")
print("|---|---|---|---|---|")
print("\n".join(rows))
