#!/bin/sh
# tools/seed_regression.sh [parallel] : every seeded change against the check of the property it breaks (committed harness, scratch copies)
PAR="${1:-4}"
# seeds marked obsolete in meta.json (neutralised by a later fix: commit) and seeded/rejected are skipped
ls -d /verif/seeded/C*/ | while read d; do id=$(basename "$d"); p=${id%%-*}; grep -q '"obsolete"' "$d/meta.json" 2>/dev/null && continue; echo "$id $p"; done > /tmp/seed_regr.todo
cat /tmp/seed_regr.todo | xargs -P "$PAR" -L 1 sh -c 'VERIF_AS_LIMIT_KB=30000000 /verif/tools/mutant_scratch.sh "sr_$0" "/verif/seeded/$0/patch.diff" "$1" 2>&1 | grep MATRIX'
