#!/bin/sh
# tools/mutant_scratch.sh <name> <patch-file> [checks...]
# Sensitivity run that does not touch /repo or /verif: makes a scratch worktree of /repo's HEAD with the
# patch applied and a scratch copy of the harness pointed at it (VERIF_ROOT / VERIF_REPO), runs the quick
# checks there and removes everything again.  Prints one line per check:
#   MATRIX <name> <ID> exit=<code> <first signatures>
# Several of these can run at once (each has its own build directory, warmed from /verif/build).
NAME="$1"; PATCH="$(readlink -f "$2")"; shift 2
CHECKS="$*"
[ -z "$CHECKS" ] && CHECKS="C01 C02 C03 C04 C05 C06 C07 C08 C09 C10 C11 C12 C13 C14 C15 C16 C17 C18 C19"
S="/tmp/mx/$NAME"
rm -rf "$S"; git -C /repo worktree prune
mkdir -p "$S/verif/build" || exit 2
git -C /repo worktree add --detach "$S/repo" HEAD >/dev/null 2>&1 || { echo "MATRIX $NAME: cannot create worktree"; exit 2; }
cleanup() { git -C /repo worktree remove --force "$S/repo" >/dev/null 2>&1; rm -rf "$S"; git -C /repo worktree prune; }
if ! git -C "$S/repo" apply "$PATCH" 2>/dev/null; then
  if ! (cd "$S/repo" && patch -p1 --fuzz=3 -s < "$PATCH" >/dev/null 2>&1); then echo "MATRIX $NAME: patch does not apply"; cleanup; exit 2; fi
fi
# the committed harness (HEAD), so edits in progress in /verif cannot break a sensitivity run; MX_WORKTREE=1 uses the working tree
if [ -n "${MX_WORKTREE:-}" ]; then
  for f in harness corpus tools check known_findings.json properties.jsonl; do cp -a /verif/$f "$S/verif/"; done
else
  git -C /verif archive HEAD harness corpus tools check known_findings.json properties.jsonl | tar -x -C "$S/verif"
fi
mkdir -p "$S/verif/evidence"
sed -i "s#\"/repo#\"$S/repo#g" "$S/verif/harness/Cargo.toml"
sed -i "s#/verif/build/harness#$S/verif/build/harness#" "$S/verif/harness/.cargo/config.toml"
[ -d /verif/build/harness ] && cp -a /verif/build/harness "$S/verif/build/harness"
export VERIF_ROOT="$S/verif" VERIF_REPO="$S/repo"
cd "$S/verif"
for P in $CHECKS; do
  out=$(./check $P --quick 2>&1); code=$?
  sig=$(echo "$out" | grep -E "^  signature:|^INCONCLUSIVE" | head -2 | tr '\n' ' ')
  echo "MATRIX $NAME $P exit=$code $sig"
  [ -n "${MX_KEEP_LOG:-}" ] && echo "$out" > "$MX_KEEP_LOG.$P.log"
done
cleanup
exit 0
