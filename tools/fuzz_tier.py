#!/usr/bin/env python3
"""Coverage-guided tier (libFuzzer via cargo-fuzz) for C07 / C11 / C12, thorough only.

usage: fuzz_tier.py <ID> <target> <runs> <exit-code-of-the-proptest-tier>

Rebuilds /verif/fuzz against /repo's current tree, runs the target for a fixed
number of runs from a fresh corpus directory seeded with corpus/<ID> and the
test-suite queries, with the semantic oracle inside the target.  A crash is
turned into a replay file + VIOLATION line; a libFuzzer timeout / out-of-memory
is inconclusive (exit 2).  The evidence file of the property is extended.
"""
import json, os, re, shutil, subprocess, sys, glob, time

ID, TARGET, RUNS, PREV = sys.argv[1], sys.argv[2], int(sys.argv[3]), int(sys.argv[4])
SEED = int(os.environ.get("VERIF_SEED", "1")) or 1
V = os.environ.get("VERIF_ROOT") or "/verif"
REPO = os.environ.get("VERIF_REPO") or "/repo"
env = dict(os.environ, CARGO_NET_OFFLINE="true")
t0 = time.time()

def finish(code, extra):
    ev_path = f"{V}/evidence/{ID}.json"
    try:
        ev = json.load(open(ev_path))
        ev["coverage"]["libfuzzer"] = extra
        if code == 1:
            ev["violations"] = ev.get("violations", 0) + 1
        ev["wall_s"] = round(ev.get("wall_s", 0) + time.time() - t0, 3)
        json.dump(ev, open(ev_path, "w"), indent=1, ensure_ascii=False)
    except Exception as e:
        print(f"INCONCLUSIVE property={ID} cannot extend evidence: {e}")
        code = max(code, 2)
    sys.exit(max(code, PREV) if PREV in (1, 2) else code)

b = subprocess.run(["cargo", "+nightly", "fuzz", "build", "--fuzz-dir", f"{V}/fuzz", "--target-dir", f"{V}/build/fuzz", TARGET],
                   cwd=f"{V}/fuzz", env=env, capture_output=True, text=True)
if b.returncode != 0:
    print(b.stderr[-2000:])
    print(f"INCONCLUSIVE property={ID} fuzz build failed")
    finish(2, {"error": "build failed"})
exe = f"{V}/build/fuzz/x86_64-unknown-linux-gnu/release/{TARGET}"
work = f"{V}/build/fuzz-work/{TARGET}-{os.getpid()}"
shutil.rmtree(work, ignore_errors=True)
os.makedirs(f"{work}/corpus"); os.makedirs(f"{work}/artifacts")
# seeds: committed corpus inputs + the repository's own test queries
n = 0
def seed(s):
    global n
    open(f"{work}/corpus/seed{n}", "w", encoding="utf-8").write(s); n += 1
for f in sorted(glob.glob(f"{V}/corpus/{ID}/*.json")):
    try:
        for it in json.load(open(f)):
            for k in ("input", "query", "lit"):
                if isinstance(it, dict) and k in it:
                    seed(it[k])
    except Exception:
        pass
for f in glob.glob(f"{REPO}/tests/entry/*.rs") + [f"{REPO}/tests/entry.rs"]:
    for q in re.findall(r'(?:assert_query|query)!\(\s*"([^"]+)"', open(f).read()):
        seed(q)
cmd = [exe, f"{work}/corpus", f"-runs={RUNS}", f"-seed={SEED}", "-len_control=0", "-max_len=256", "-timeout=300",
       "-rss_limit_mb=6000", "-malloc_limit_mb=3000", "-detect_leaks=0", f"-artifact_prefix={work}/artifacts/", "-print_final_stats=1"]
r = subprocess.run(cmd, capture_output=True, text=True, errors="replace", env=dict(env, ASAN_OPTIONS="detect_leaks=0"))
log = r.stderr
stats = {k: int(v) for k, v in re.findall(r"stat::(\w+):\s+(\d+)", log)}
cov = re.findall(r"cov: (\d+) ft: (\d+) corp: (\d+)", log)
extra = {"target": TARGET, "runs_requested": RUNS, "seed": SEED, "seed_inputs": n, "stats": stats,
         "final_cov_ft_corpus": cov[-1] if cov else None, "exit": r.returncode}
arts = sorted(glob.glob(f"{work}/artifacts/*"))
code = 0
if r.returncode != 0 or arts:
    kinds = [os.path.basename(a).split("-")[0] for a in arts]
    # "slow-unit" artifacts are informational (libFuzzer reports inputs slower than a threshold): not a result
    arts = [a for a in arts if not os.path.basename(a).startswith("slow")]
    kinds = [os.path.basename(a).split("-")[0] for a in arts]
    if not arts and r.returncode == 0:
        pass
    elif arts and all(k in ("timeout", "oom") for k in kinds):
        keep = f"{V}/replays/{ID}"; os.makedirs(keep, exist_ok=True)
        for a in arts: shutil.copy(a, keep)
        print(f"INCONCLUSIVE property={ID} libFuzzer target {TARGET}: {', '.join(kinds)} (artifacts copied to {keep})")
        extra["inconclusive"] = kinds
        code = 2
    else:
        # re-run the crashing artifact to recover the derived input
        a = arts[0] if arts else None
        inp = None
        if a:
            rr = subprocess.run([exe, a], capture_output=True, text=True, errors="replace", env=dict(env, VERIF_FUZZ_PRINT="1", ASAN_OPTIONS="detect_leaks=0"))
            m = re.findall(r'^INPUT (".*")$', rr.stderr, re.M)
            if m:
                try: inp = json.loads(m[-1])
                except Exception: inp = m[-1]
            orc = re.findall(r"^ORACLE-FAILURE (\S+) (.*)$", rr.stderr, re.M)
        else:
            orc = []
        keep = f"{V}/replays/{ID}"; os.makedirs(keep, exist_ok=True)
        path = f"{keep}/libfuzzer-{TARGET}-{os.getpid()}.json"
        case = {"input": inp} if TARGET != "literal" else {"lit": inp}
        json.dump({"property": ID, "sub": f"libfuzzer-{TARGET}", "signature": orc[-1][0] if orc else "crash", "case": case,
                   "detail": {"artifact_base64": __import__("base64").b64encode(open(a, "rb").read()).decode() if a else None,
                              "oracle": orc[-1][1] if orc else None, "log_tail": log[-1500:]}}, open(path, "w"), indent=1, ensure_ascii=False)
        print(f"VIOLATION property={ID} replay={path}")
        code = 1
shutil.rmtree(work, ignore_errors=True)
print(f"libfuzzer target={TARGET} runs={stats.get('number_of_executed_units', '?')} new_units={stats.get('new_units_added', '?')} exit={r.returncode}")
finish(code, extra)
