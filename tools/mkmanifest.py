#!/usr/bin/env python3
"""Regenerates /verif/MANIFEST.json from the table below (single source of truth)."""
import json, subprocess

ALL = ["C%02d" % i for i in range(1, 20)]

# id -> (category, technique, level text, level note, design ref)
CLAIMED = {
 "C01": ("exploration",
         "property-based testing (proptest): generated expression trees vs an independent exact BigRational evaluator, shrinking to a minimal query",
         "Generated expression trees (three generator classes: small literals deep trees, 60-300 digit literals, zero-rich) are evaluated by the tool and by an independent exact evaluator that works on the AST, never on text; value must be equal as a reduced fraction and division by zero must be an error. Exploration is the right level: the input space is unbounded and the oracle is exact.",
         "Trusts num::BigRational arithmetic in the harness and the harness's own renderer (minimal parentheses from the documented precedence table). Exponents are integer by construction and the product of |exponents| per path is capped.",
         "DESIGN.md 4/C01"),
}

PENDING_REASON = "check not built yet in this session (planned with property-based testing per DESIGN.md section 4); not claimed until its machinery is committed"

def main():
    checks = []
    for pid in ALL:
        if pid not in CLAIMED:
            continue
        cat, tech, text, note, ref = CLAIMED[pid]
        checks.append({
            "property_id": pid,
            "quick_cmd": "./check %s --quick" % pid,
            "thorough_cmd": "./check %s --thorough" % pid,
            "evidence_file": "/verif/evidence/%s.json" % pid,
            "replay_cmd_template": "./check %s --replay {path}" % pid,
            "engine": "verif",
            "level_claimed": {"category": cat, "text": text, "design_ref": ref},
            "level_note": note,
            "technique": tech,
        })
    try:
        commits = subprocess.check_output(["git", "-C", "/repo", "log", "--format=%H %s"], text=True).splitlines()
    except Exception:
        commits = []
    hook_commits = [c.split()[0] for c in commits if c.split(" ", 1)[1].startswith("verif-hook:")]
    m = {
        "version": 1,
        "setup_cmd": "./setup.sh",
        "hooks": {
            "guard": "--cfg anything_verif",
            "enable": "RUSTFLAGS=\"--cfg anything_verif\" (set in /verif/harness/.cargo/config.toml; every ./check builds /repo with it)",
            "baseline_off_cmd": "cd /repo && cargo test --workspace --no-fail-fast --offline",
            "source_commits": hook_commits,
            "add_only": True,
        },
        "engines": [
            {"name": "verif", "path": "/verif/harness", "serves_properties": sorted(CLAIMED),
             "kind_free_text": "one Rust crate: proptest strategies + exhaustive enumerators + reference models, sharded over 16 threads; links /repo as a path dependency so every run tests the current working tree"},
        ],
        "checks": checks,
        "not_applicable": [{"property_id": p, "reason": PENDING_REASON} for p in ALL if p not in CLAIMED],
        "notes": "Exit codes of every check: 0 held on everything explored (KNOWN-FINDING lines possible), 1 violation (VIOLATION property=<id> replay=<path>), 2 inconclusive (build failure, watchdog). VERIF_SEED selects the PRNG stream; exhaustive enumerations ignore it.",
    }
    json.dump(m, open("/verif/MANIFEST.json", "w"), indent=1)
    print("wrote MANIFEST.json with", len(checks), "checks")

if __name__ == "__main__":
    main()
