#!/usr/bin/env python3
"""Regenerates /verif/MANIFEST.json from the table below (single source of truth)."""
import json, subprocess

ALL = ["C%02d" % i for i in range(1, 20)]

# id -> (category, technique, level text, level note, design ref)
PBT = "property-based testing (proptest strategies, 16 seeded shards, shrinking to a minimal replay file)"
ENUM = "exhaustive enumeration of the bounded input space plus property-based testing (proptest) beyond the bound"

CLAIMED = {
 "C01": ("exploration",
         PBT + ": generated expression trees vs an independent exact BigRational evaluator",
         "Generated expression trees (three generator classes: small literals deep trees, 60-300 digit literals, zero-rich) are evaluated by the tool and by an independent exact evaluator that works on the AST, never on text; value must be equal as a reduced fraction and division by zero must be an error. Exploration is the right level: the input space is unbounded and the oracle is exact.",
         "Trusts num::BigRational arithmetic in the harness and the harness's own renderer (minimal parentheses from the documented precedence table). Exponents are integer by construction and the product of |exponents| per path is capped.",
         "DESIGN.md 4/C01"),
 "C05": ("exploration",
         ENUM + ": all 86 definitions vs a hand-written standards table, all 9480 vocabulary words vs an independent segmentation over data.toml names, generated unit expressions vs the stated semantics",
         "Three complete enumerations (every unit definition against accepted standard scales; every typable [prefix]name word: an accepted reading must be a documented segmentation and both entry points must agree; every bare unit name must denote its own variant) plus generated unit expressions with juxtaposition, blanks, * / ^n compared by a membership search over documented segmentations. The vocabulary is finite, so the first three parts settle it; expressions are sampled.",
         "Trusts the hand-written standards table (deliberately generous accepted-scale sets) and tools/gen/data.toml as the documentation of names. Words at lexer backtracking positions are excluded from the generated sub-check (known finding), counted in evidence.",
         "DESIGN.md 4/C05"),
 "C06": ("exploration",
         ENUM + ": all operator sequences x tree shapes x 32 parenthesisation/blank layouts vs reference evaluation of the AST",
         "All operator sequences over + - * / ^ up to length 4 (quick) / 6 (thorough) with every binary tree shape, each rendered 32 ways (minimal, full and redundant parentheses x blank layouts), plus to/round/floor/ceil variants and random deeper trees; every rendering must give exactly the reference value of the AST (or an error iff the reference errors).",
         "Trusts the harness renderer's blank policy (blanks may only be dropped between plain numbers, parentheses and commas; + - and `to` always spaced) and the reference evaluator.",
         "DESIGN.md 4/C06"),
 "C07": ("exploration",
         ENUM + ": every well-formed literal up to length 6/8 and random literals up to 600 digits vs an independent decimal reader, through four observation points",
         "Every well-formed literal of length <= 5 (quick) / 6 (thorough) over all digits and <= 6 / 8 over digits 0 1 5 9 is read by str::parse::<Rational>, as a bare query, as left operand and as right operand; all four must equal the independent reader. Random literals with up to 600 digits and exponents up to 999.",
         "Trusts the harness's decimal reader (15 lines) and BigRational.",
         "DESIGN.md 4/C07"),
 "C08": ("exploration",
         PBT + " plus an exhaustive n/d grid: printed text parsed back and compared with the exact value under the truncation/mark oracle",
         "Grid of small fractions, random terminating/repeating rationals over 1e-45..1e45 and budget-boundary values built from the spec, crossed with limits 1..20, exponent thresholds 1..15 and continuation on/off; the printed text must parse, carry the right sign, be the value cut toward zero at the last printed digit, and carry the mark iff something non-zero was cut.",
         "Trusts the 3-line printed-text parser and BigRational comparison; no floating point anywhere.",
         "DESIGN.md 4/C08"),
 "C10": ("exploration",
         PBT + ": boundary-focused arguments vs the mathematical definitions on exact rationals",
         "floor/ceil/round/round(x,n) on integers, exact halves, values one unit in the last place around integer/half boundaries, random decimals and p/q fractions, with/without unit, n in -6..6, arities 0..4, against div_floor-based definitions; result must keep the argument's unit; wrong arity must be an error.",
         "Trusts the reference definitions (round = sign*floor(|x|+1/2)) and the observed per-unit factor table for SI normalisation.",
         "DESIGN.md 4/C10"),
 "C12": ("exploration",
         ENUM + ": all strings up to length 4 (quick) / 6 (thorough) over a 40-symbol alphabet; tokens must tile the input and equal the parse tree's leaves",
         "All 40^k strings for k <= 4 (quick; plus 20^5) or k <= 6 (thorough) and random longer / arbitrary Unicode strings: lexer terminates, tokens non-empty, contiguous, on char boundaries, covering the input; parse_root succeeds and its leaves are exactly the tokens (start, end, kind).",
         "Uses the doc-hidden public modules anything::syntax::{lexer,parser}; a watchdog turns non-termination into exit 2 (inconclusive) and a token-count limit into a violation.",
         "DESIGN.md 4/C12"),
}

PENDING_REASON = "check not built yet in this session (planned with property-based testing per DESIGN.md section 4); not claimed until its machinery is committed"

def main():
    checks = []
    for pid in ALL:
        if pid not in CLAIMED:
            continue
        cat, tech, text, note, ref = CLAIMED[pid]
        checks.append({
            "property_id": pid,
            "quick_cmd": "./check %s --quick" % pid,
            "thorough_cmd": "./check %s --thorough" % pid,
            "evidence_file": "/verif/evidence/%s.json" % pid,
            "replay_cmd_template": "./check %s --replay {path}" % pid,
            "engine": "verif",
            "level_claimed": {"category": cat, "text": text, "design_ref": ref},
            "level_note": note,
            "technique": tech,
        })
    try:
        commits = subprocess.check_output(["git", "-C", "/repo", "log", "--format=%H %s"], text=True).splitlines()
    except Exception:
        commits = []
    hook_commits = [c.split()[0] for c in commits if c.split(" ", 1)[1].startswith("verif-hook:")]
    m = {
        "version": 1,
        "setup_cmd": "./setup.sh",
        "hooks": {
            "guard": "--cfg anything_verif",
            "enable": "RUSTFLAGS=\"--cfg anything_verif\" (set in /verif/harness/.cargo/config.toml; every ./check builds /repo with it)",
            "baseline_off_cmd": "cd /repo && cargo test --workspace --no-fail-fast --offline",
            "source_commits": hook_commits,
            "add_only": True,
        },
        "engines": [
            {"name": "verif", "path": "/verif/harness", "serves_properties": sorted(CLAIMED),
             "kind_free_text": "one Rust crate: proptest strategies + exhaustive enumerators + reference models, sharded over 16 threads; links /repo as a path dependency so every run tests the current working tree"},
        ],
        "checks": checks,
        "not_applicable": [{"property_id": p, "reason": PENDING_REASON} for p in ALL if p not in CLAIMED],
        "notes": "Exit codes of every check: 0 held on everything explored (KNOWN-FINDING lines possible), 1 violation (VIOLATION property=<id> replay=<path>), 2 inconclusive (build failure, watchdog). VERIF_SEED selects the PRNG stream; exhaustive enumerations ignore it.",
    }
    json.dump(m, open("/verif/MANIFEST.json", "w"), indent=1)
    print("wrote MANIFEST.json with", len(checks), "checks")

if __name__ == "__main__":
    main()
