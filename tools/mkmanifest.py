#!/usr/bin/env python3
"""Regenerates /verif/MANIFEST.json from the table below (single source of truth)."""
import json, subprocess

ALL = ["C%02d" % i for i in range(1, 20)]

# id -> (category, technique, level text, level note, design ref)
PBT = "property-based testing (proptest strategies, 16 seeded shards, shrinking to a minimal replay file)"
ENUM = "exhaustive enumeration of the bounded input space plus property-based testing (proptest) beyond the bound"

CLAIMED = {
 "C01": ("exploration",
         PBT + ": generated expression trees vs an independent exact BigRational evaluator",
         "Generated expression trees (three generator classes: small literals deep trees, 60-300 digit literals, zero-rich) are evaluated by the tool and by an independent exact evaluator that works on the AST, never on text; value must be equal and handed out in canonical form (lowest terms, positive denominator: what --exact prints and is_integer relies on) and division by zero must be an error. Exploration is the right level: the input space is unbounded and the oracle is exact.",
         "Trusts num::BigRational arithmetic in the harness and the harness's own renderer (minimal parentheses from the documented precedence table). Exponents are integer by construction and the product of |exponents| per path is capped.",
         "DESIGN.md 4/C01"),
 "C05": ("exploration",
         ENUM + ": all 86 definitions vs a hand-written standards table, all 9480 vocabulary words vs an independent segmentation over data.toml names, generated unit expressions vs the stated semantics",
         "Complete enumerations (every unit definition against accepted standard scales, also under the powers -3..3 / -6..6 so a dimension table that is only right at power one is caught; every typable [prefix]name word: an accepted reading must be a documented segmentation and both entry points must agree; every bare unit name must denote its own variant) plus generated unit expressions with juxtaposition, blanks, * / ^n compared by a membership search over documented segmentations; 27 exponent spellings and 14 unit numbers on every unit (refused, or read with the exact value). The vocabulary is finite, so the first three parts settle it; expressions are sampled.",
         "Trusts the hand-written standards table (deliberately generous accepted-scale sets) and tools/gen/data.toml as the documentation of names. Words at lexer backtracking positions are excluded from the generated sub-check (known finding), counted in evidence.",
         "DESIGN.md 4/C05"),
 "C06": ("exploration",
         ENUM + ": all operator sequences x tree shapes x 32 parenthesisation/blank layouts vs reference evaluation of the AST",
         "All operator sequences over + - * / ^ up to length 4 (quick) / 6 (thorough) with every binary tree shape, each rendered 32 ways (minimal, full and redundant parentheses x blank layouts), plus to/round/floor/ceil variants and random deeper trees; every rendering must give exactly the reference value of the AST (or an error iff the reference errors); chains of + and - with plain numbers between quantities (grouping observable through the adopted unit); parenthesised casts with several-word targets glued to the closing parenthesis or comma; every kind of blank the tool's own lexer takes into a blank run (15 kinds), in every position of a run, evaluates as plain spaces do.",
         "Trusts the harness renderer's blank policy (blanks may only be dropped between plain numbers, parentheses and commas; + - and `to` always spaced) and the reference evaluator.",
         "DESIGN.md 4/C06"),
 "C07": ("exploration",
         ENUM + ": every well-formed literal up to length 6/8 and random literals up to 600 digits vs an independent decimal reader, through four observation points",
         "Every well-formed literal of length <= 5 (quick) / 6 (thorough) over all digits and <= 6 / 8 over digits 0 1 5 9 is read by str::parse::<Rational>, as a bare query, as left operand and as right operand; all four must equal the independent reader. Random literals with up to 600 digits and exponents up to 999; literals of 1020-65k characters; literals whose exponent does not fit 32 bits must be refused at every entry point.",
         "Trusts the harness's decimal reader (15 lines) and BigRational.",
         "DESIGN.md 4/C07"),
 "C08": ("exploration",
         PBT + " plus an exhaustive n/d grid: printed text parsed back and compared with the exact value under the truncation/mark oracle",
         "Grid of small fractions, random terminating/repeating rationals over 1e-45..1e45 and budget-boundary values built from the spec, crossed with limits 1..20, exponent thresholds 1..15 and continuation on/off; the printed text must parse, carry the right sign, be the value cut toward zero at the last printed digit, and carry the mark iff something non-zero was cut.",
         "Trusts the 3-line printed-text parser and BigRational comparison; no floating point anywhere.",
         "DESIGN.md 4/C08"),
 "C10": ("exploration",
         PBT + ": boundary-focused arguments vs the mathematical definitions on exact rationals",
         "floor/ceil/round/round(x,n) on integers, exact halves, values one unit in the last place around integer/half boundaries, random decimals and p/q fractions, with/without unit, n in -6..6, arities 0..4, against div_floor-based definitions; result must keep the argument's unit; wrong arity must be an error.",
         "Trusts the reference definitions (round = sign*floor(|x|+1/2)) and the observed per-unit factor table for SI normalisation.",
         "DESIGN.md 4/C10"),
 "C12": ("exploration",
         ENUM + ": all strings up to length 4 (quick) / 6 (thorough) over a 40-symbol alphabet; tokens must tile the input and equal the parse tree's leaves",
         "All 40^k strings for k <= 4 (quick; plus 20^5) or k <= 6 (thorough) and random longer / arbitrary Unicode strings: lexer terminates, tokens non-empty, contiguous, on char boundaries, covering the input; parse_root succeeds and its leaves are exactly the tokens (start, end, kind); a part of the enumeration again with the Trace log level enabled; plus huge-token families (2^16..2^17 bytes, up to 65 000 tokens) and an alignment sweep (runs of 0..130 token characters followed by each of 13 multi-byte characters).",
         "Uses the doc-hidden public modules anything::syntax::{lexer,parser}; a watchdog turns non-termination into exit 2 (inconclusive) and a token-count limit into a violation.",
         "DESIGN.md 4/C12"),

 "C02": ("exploration",
         PBT + ": pairs of unit spellings constructed for equal / perturbed dimension vectors vs a hand-written dimension table and exact factor arithmetic",
         "Commensurable pairs are built by construction (free first spelling; second = random derived units plus the residual in base units, which reaches spellings whose base powers cancel: J/N, V*A, C/s), incommensurable pairs by perturbing the dimension; forms + - to and the plain-number forms in both operand orders; success iff the reference dimensions are equal, exact value, result unit checked for casts and plain-number forms; also sum chains of three to five terms with leading plain numbers, computed left operands (also a plain number over a quantity), powers far apart and unit powers at the 32-bit boundary.",
         "Dimensions come from the hand-written table; per-unit factors are the tool's own (observed once with 86 casts, judged by C05). Words the tool does not read as declared are excluded (C05 judges them).",
         "DESIGN.md 4/C02"),
 "C03": ("exploration",
         PBT + " plus an exhaustive prefix x unit x power grid: conversion families (direct, there-and-back, via intermediate, scaled) vs the product of single-unit factors and powers of ten",
         "Each family of commensurable spellings is cast directly, there and back, via an intermediate unit, with scaled input and scaled output; all must equal x*s(U1)/s(U2) with s the product of observed single-unit factors and 10^(prefix*power); the grid `1 <prefix><name>^n to <name>^n` = 10^(e*n) is complete over every prefixed word read as declared and n in -3..3; every glued product word (kWh, mAh …) with exactly one documented reading is refused or has the value of that reading.",
         "Single-unit factors are observed from the tool (C05 judges them against the standards); prefix exponents come from the SI brochure table in the harness.",
         "DESIGN.md 4/C03"),
 "C04": ("exploration",
         PBT + ": expression trees over quantities vs reference evaluation on (SI value, dimension vector) pairs, result normalised through the Compound mirror",
         "Trees with * / ^n (n -3..3) over compound, derived, prefixed, powered and cancelling unit leaves; the tool's result, whatever unit it displays, is normalised by the harness's own arithmetic and must have exactly the reference SI value and dimension; no unit entry with power zero; division by a zero quantity and 0^-n must be errors; `(x u^a)^b` around the 32-bit boundary of the unit's power (that power, or an error); exponents that carry a unit are errors; small quantities raised to integer powers -80..80.",
         "Trusts the Compound serialisation mirror (serde_cbor) and the observed factor table.",
         "DESIGN.md 4/C04"),
 "C09": ("exploration",
         PBT + ": conversion chains vs the defining affine formulas on exact rationals; not-alone class vs interval conversion or refusal",
         "Chains of up to four conversions among K, °C, °F (both spellings) must end where K = C + 273.15, C = (F - 32)*5/9 say, exactly; a scale with a power other than one or combined with other units must be refused or converted as an interval, never shifted by a zero point; products and quotients holding an offset scale must be refused or equal the same expression with every degree read as an interval (a quotient of lone scales may also be the ratio of absolute temperatures); sums of not-alone scales likewise.",
         "Formulas are written in the harness from the definitions; a prefixed degree is its power of ten degrees (C03's rule).",
         "DESIGN.md 4/C09"),
 "C11": ("exploration",
         PBT + " (token soups, mutated well-formed expressions, ASCII noise, arbitrary Unicode) under a validity predicate, in a debug-assertion and a release build, plus a sample through the real binary",
         "Every input, after a sanitiser that enforces the stated size bounds, must parse, produce a terminating sequence of results, each a displayable value or an error with a message and a range inside the input on char boundaries; no panic in either build profile; sampled inputs also go through the `any` binary (exit 0, no panic), half of them with RUST_LOG=trace.",
         "A 30 s watchdog turns a hang into exit 2. The release profile runs as a child process of the same harness and its counts are merged.",
         "DESIGN.md 4/C11"),
 "C13": ("exploration",
         PBT + ": metamorphic field laws, both sides evaluated by the tool and compared after SI normalisation; operands include every typable fact phrase",
         "Seven law instances per generated triple (commutativity, associativity, distributivity, a-a, a/a) over literals with arbitrary unit spellings and facts decoded by the harness from db/*.bin.gz; both sides must be values with equal SI value and dimension. A second class instantiates the laws over the offset scales (°C, °F, prefixed, inside compounds), degrees compared as intervals, additive laws per scale spelling, plus a^2 = a*a and a^3 = a*a*a; a third class puts a plain number next to quantities whose unit has no net dimension (ft/m, in/ft).",
         "Plain numbers and dimensionless quantities carrying a unit are never mixed in one triple (a plain number adopts its partner's unit, which is C02's rule, not a field law). Additive laws are not instantiated across two different temperature scales: a sum converts its right operand by the affine formula (C09), which is not commutative by construction.",
         "DESIGN.md 4/C13"),
 "C14": ("exploration",
         "history-based testing: repeated index builds under varied schedules (threads, CPU pinning, background load) and on-disk/reopen/rebuild sessions, invariant = all sessions agree on every query",
         "26 (quick) to ~200 (thorough) sessions answer ~5400-15000 queries (every fact's words, every single word, every 1-7 character prefix of every word — all terms of the prefix n-gram index — pairs of short prefixes, word pairs); every query must get the same constant in all sessions. Interleavings of tantivy's worker threads are sampled by repetition, pinning and load, not enumerated; this is evidence, not proof.",
         "The schedule of the indexing threads is not owned by the harness.",
         "DESIGN.md 4/C14, 6"),
 "C15": ("fault_enumeration",
         "fault injection over generated histories: prior directory state x crash point (cfg-guarded process aborts) x follow-up starts, oracle = answers of a fresh in-memory database and meta.json contents",
         "All 13 prior states (incl. stray siblings next to the index and well-formed metadata with odd hash strings) x all 8 named crash points, a small syscall-kill sweep (thorough: the full sweep) with a completing follow-up are enumerated, plus boundary document counts and 500 (quick) / 6000 (thorough) random histories of up to 4 starts; every completing start must answer like a fresh in-memory database and record {current version, current hash}; a crash that leaves meta.json claiming current must not be followed by a wrong answer. 64 (quick) / 112 (thorough) further histories really replace the data files the tool reads between starts (same/different byte size and time stamp, with crash points), each child in a private mount namespace with the data bind-mounted over <repo>/db, judged against a fresh in-memory database under the same data.",
         "Crash = process abort at a hook point between the rebuild steps (hook commit in /repo, cfg anything_verif); torn single writes are modelled only as truncated/garbage meta.json prior states. The data-replacement histories need `unshare -m` and a bind mount (available to root in this sandbox); where they are not, that sub-check is skipped and the evidence says so.",
         "DESIGN.md 4/C15, 7"),
 "C16": ("exploration",
         "exhaustive enumeration of the shipped data (all 777 typable constants, their own word order and permutations) against a validity predicate on the returned constant",
         "Every typable shipped constant is asked for by its own words (and 12/40 permutations): one value, one description with that phrase, the returned constant carries all asked words, is complete (description; a source id that resolves to the shipped source of that id — id, description, URL) and its value/unit are the result; also against the on-disk first start and reopened sessions, and pairs of constants in one query.",
         "The harness decodes db/*.bin.gz itself; 101 constants whose words cannot be typed (`/`, blanks inside a word) are skipped and counted.",
         "DESIGN.md 4/C16"),
 "C17": ("exploration",
         ENUM + ": all registry units and shipped constants, random compounds/rationals/constants, CBOR and JSON round trips with byte-identical re-encoding",
         "All 86 units: name -> Compound -> CBOR -> back, the written id equals the id documented in data.toml and a CBOR value hand-built from the documented id decodes to the same unit; every identifier pinned in harness/data/ids_pinned.json (what data written by the pinned build contains) still decodes to the unit of the same name; all 878 shipped constants re-encode and decode equal; every record of sources.bin.gz is reachable by its id in a started database, unchanged; unit expressions with powers at the boundaries of every integer width written and read back (==, Display; no observation through the serialised shape); random compounds (built from documented ids), 2000-bit rationals (CBOR and JSON; also as another writer may have stored them, unreduced or with the sign in the denominator: written again and read back they keep their value) and constants round-trip with identical bytes.",
         "Stability oracle: the identifier table committed in /verif (harness/data/ids_pinned.json, taken from the pinned tree and cross-checked against the ids inside the shipped data files); tools/gen/data.toml is only the name registry.",
         "DESIGN.md 4/C17"),
 "C18": ("exploration",
         PBT + " (expressions mixing literals, quantities and fact phrases) plus history-based testing (shuffled query lists against one database instance)",
         "Results with and without descriptions must be equal; descriptions must be exactly the phrases used (attributed per result in order: a successful result reports exactly its phrases, a failing one a sub-multiset, and a failure takes nothing away from an earlier success), each paired with the constant the phrase returns alone; the value must equal the reference evaluation with phrases replaced by those constants; every query of a history gives the same results in order, in reverse order on a fresh instance and on a long-lived instance; histories of bare lookups repeat a rejected or not-found phrase right after a found one; histories include clusters of phrases sharing a long prefix and of phrases differing only in letter case or in the case of an inserted and/or/not.",
         "Within one expression only the multiset of descriptions is required (the evaluator defines the order).",
         "DESIGN.md 4/C18"),
 "C19": ("exploration",
         PBT + ": differential test of the `any` binary against the library, byte-for-byte stdout comparison in default and --exact mode",
         "Queries from the other generators (values, units, pluralisable units with value 1 / not 1, runs of results sharing one unit, denominator-only units, errors and lookup failures among several results, facts, multi-result, noise; also --describe, split arguments, non-UTF-8 locale variables and RUST_LOG=trace) are run through the binary compiled from /repo/src/bin/any.rs; stdout must equal what the harness prints from library results and the exit status must be 0; an exact fraction must be printed in lowest terms with the sign in the numerator; the 12-digit rendering must also satisfy C08's oracle.",
         "Diagnostics are rendered by the harness with the same codespan-reporting library; colours are disabled in the child (TERM=dumb, NO_COLOR).",
         "DESIGN.md 4/C19"),
}

PENDING_REASON = "check not built yet (planned with property-based testing per DESIGN.md section 4); not claimed until its machinery is committed"

def main():
    checks = []
    for pid in ALL:
        if pid not in CLAIMED:
            continue
        cat, tech, text, note, ref = CLAIMED[pid]
        checks.append({
            "property_id": pid,
            "quick_cmd": "./check %s --quick" % pid,
            "thorough_cmd": "./check %s --thorough" % pid,
            "evidence_file": "/verif/evidence/%s.json" % pid,
            "replay_cmd_template": "./check %s --replay {path}" % pid,
            "engine": "verif",
            "level_claimed": {"category": cat, "text": text, "design_ref": ref},
            "level_note": note,
            "technique": tech,
        })
    try:
        commits = subprocess.check_output(["git", "-C", "/repo", "log", "--format=%H %s"], text=True).splitlines()
    except Exception:
        commits = []
    hook_commits = [c.split()[0] for c in commits if c.split(" ", 1)[1].startswith("verif-hook:")]
    m = {
        "version": 1,
        "setup_cmd": "./setup.sh",
        "hooks": {
            "guard": "--cfg anything_verif",
            "enable": "RUSTFLAGS=\"--cfg anything_verif\" (set in /verif/harness/.cargo/config.toml; every ./check builds /repo with it)",
            "baseline_off_cmd": "cd /repo && cargo test --workspace --no-fail-fast --offline",
            "source_commits": hook_commits,
            "add_only": True,
        },
        "engines": [
            {"name": "verif", "path": "/verif/harness", "serves_properties": sorted(CLAIMED),
             "kind_free_text": "one Rust crate: proptest strategies + exhaustive enumerators + reference models, sharded over 16 threads; links /repo as a path dependency so every run tests the current working tree"},
        ],
        "checks": checks,
        "not_applicable": [{"property_id": p, "reason": PENDING_REASON} for p in ALL if p not in CLAIMED],
        "notes": "Exit codes of every check: 0 held on everything explored (KNOWN-FINDING lines possible), 1 violation (VIOLATION property=<id> replay=<path>), 2 inconclusive (build failure, watchdog). VERIF_SEED selects the PRNG stream; exhaustive enumerations ignore it.",
    }
    json.dump(m, open("/verif/MANIFEST.json", "w"), indent=1)
    print("wrote MANIFEST.json with", len(checks), "checks")

if __name__ == "__main__":
    main()
