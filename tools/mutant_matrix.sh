#!/bin/sh
# tools/mutant_matrix.sh <name> <patch-file> [-R] [checks...]
# Applies a patch to /repo, runs the checks (default: all), undoes it. Prints one line per check.
NAME="$1"; PATCH="$2"; shift 2
REV=""
if [ "${1:-}" = "-R" ]; then REV="-R"; shift; fi
CHECKS="$*"
[ -z "$CHECKS" ] && CHECKS="C01 C02 C03 C04 C05 C06 C07 C08 C09 C10 C11 C12 C13 C14 C15 C16 C17 C18 C19"
cd /repo || exit 2
if [ -n "$(git status --porcelain --untracked-files=no)" ]; then echo "MATRIX $NAME: /repo not clean"; exit 2; fi
if ! git apply $REV "$PATCH" 2>/dev/null; then
  if ! patch $REV -p1 --fuzz=3 -s < "$PATCH" >/dev/null 2>&1; then
    echo "MATRIX $NAME: patch does not apply"; git checkout -- . ; git clean -fdq src 2>/dev/null; exit 2
  fi
fi
find . -name '*.orig' -o -name '*.rej' | grep -v target | xargs rm -f 2>/dev/null
cd /verif
for P in $CHECKS; do
  out=$(./check $P --quick 2>&1); code=$?
  sig=$(echo "$out" | grep -E "^  signature:" | head -2 | tr '\n' ' ')
  echo "MATRIX $NAME $P exit=$code $sig"
done
git -C /repo checkout -- .
git -C /repo clean -fdq src 2>/dev/null
[ -n "$(git -C /repo status --porcelain --untracked-files=no)" ] && echo "MATRIX $NAME: WARNING /repo not clean after undo"
exit 0
