#!/usr/bin/env python3
"""Hand-designed mutants (the "Kills" lists of DESIGN.md section 4) as search/replace edits on /repo's sources.
usage: own_mutants.py emit   -> writes /verif/mutants/<name>.diff for every mutant (fails if an edit no longer applies)
       own_mutants.py list   -> name, primary checks
Each mutant is one small semantic change; `checks` are the properties expected to notice it."""
import subprocess, sys, os, tempfile, shutil

M = []
def m(name, file, old, new, checks, count=1):
    M.append(dict(name=name, file=file, old=old, new=new, checks=checks, count=count))

E = "src/eval.rs"; C = "src/compound.rs"; R = "src/rational/mod.rs"; D = "src/rational/display.rs"
L = "src/syntax/lexer.rs"; G = "src/syntax/grammar.rs"; P = "src/syntax/parser.rs"; B = "src/eval/builtin.rs"
DB = "src/db.rs"; CF = "src/config.rs"; A = "src/bin/any.rs"; U = "src/unit.rs"; T = "src/units/temperature.rs"; Q = "src/query.rs"

# ---- C01 arithmetic
m("c01_sub_swapped", E, "Ok(Numeric::new(a.value - b.value, unit))", "Ok(Numeric::new(b.value - a.value, unit))", "C01 C13")
m("c01_percent_by_10", E, "let one_hundred = Rational::new(100u32, 1u32);", "let one_hundred = Rational::new(10u32, 1u32);", "C01 C07")
m("c01_pow_no_recip", E, "Sign::Minus => base.value.recip(),", "Sign::Minus => base.value,", "C01")
m("c01_pow_zero_neg_ok", E, "        if pow.value.numer().is_negative() {\n            return Err(Error::new(span, DivideByZero));\n        }\n", "", "C01")
m("c01_div_zero_test_wrong_operand", E, "if a.value.denom().is_zero() || b.value.numer().is_zero() {", "if a.value.numer().is_zero() && b.value.numer().is_zero() {", "C01 C11")
m("c01_pow_zero_exponent_returns_base", E, "        return Ok(Numeric::new(Rational::new(1, 1), unit));", "        return Ok(Numeric::new(base.value, unit));", "C01 C04")
m("c01_mul_via_f64", E, "    Ok(Numeric::new(a.value * b.value, unit))", "    let prod = a.value * b.value;\n    let prod = if prod.numer().bits() > 200 { Rational::from_f64(num::ToPrimitive::to_f64(&prod).unwrap_or(0.0)).unwrap_or(prod) } else { prod };\n    Ok(Numeric::new(prod, unit))", "C01")
# ---- C02
m("c02_factor_ok_on_mismatch", C, "            if lhs != rhs {\n                return Ok(false);\n            }", "            if lhs != rhs && lhs.signum() != rhs.signum() {\n                return Ok(false);\n            }", "C02")
m("c02_add_keeps_rhs_unit", E, "            let unit = if a.unit.is_empty() { b.unit } else { a.unit };\n            Ok(Numeric::new(a.value + b.value, unit))", "            let unit = if b.unit.is_empty() { a.unit } else { b.unit };\n            Ok(Numeric::new(a.value + b.value, unit))", "C02 C13")
m("c02_plain_number_loses_unit_on_sub", E, "            let unit = if a.unit.is_empty() { b.unit } else { a.unit };\n            Ok(Numeric::new(a.value - b.value, unit))", "            Ok(Numeric::new(a.value - b.value, a.unit))", "C02")
m("c02_powers_keep_zero", "src/powers.rs", "                if *e.get() == 0 {\n                    e.remove();\n                }", "", "C02 C04")
m("c02_illegal_cast_is_ok", E, "                        match rhs.factor(&lhs.unit, &mut lhs.value) {\n                            Ok(true) => {}", "                        match rhs.factor(&lhs.unit, &mut lhs.value) {\n                            Ok(_) => {}", "C02")
# ---- C03
m("c03_prefix_plus_power", C, "            *value *= Rational::new(10u32, 1u32).pow(state.prefix * state.power);\n\n            if let Some(conversion) = name.conversion() {\n                let alone = other.names.len() == 1", "            *value *= Rational::new(10u32, 1u32).pow(state.prefix + state.power - 1);\n\n            if let Some(conversion) = name.conversion() {\n                let alone = other.names.len() == 1", "C03 C02")
m("c03_factor_pow_dropped", C, "                *ratio *= Rational::new(fraction.numer, fraction.denom).pow(pow);", "                *ratio *= Rational::new(fraction.numer, fraction.denom).pow(pow.signum());", "C03 C04")
m("c03_kilo_constant", "src/prefix.rs", "pub const KILO: i32 = 3;", "pub const KILO: i32 = 4;", "C03 C05")
m("c03_gram_bias", U, "Unit::KiloGram => 3,", "Unit::KiloGram => 0,", "C19")
# ---- C04
m("c04_mul_n_ignored_for_rhs_bases", C, "                    e.insert(State {\n                        power: power * n,\n                        prefix: 0,\n                    });", "                    e.insert(State {\n                        power,\n                        prefix: 0,\n                    });", "C04 C13")
m("c04_reconstruct_wrong_sign", C, "                    apply_interval_conversion(-mod_power, out, conversion);", "                    apply_interval_conversion(mod_power, out, conversion);", "C04 C13")
m("c04_exponent_unit_ignored", E, "    if !pow.unit.is_empty() {\n        return Err(Error::new(span, IllegalPowerUnit));\n    }\n", "", "C04")
m("c05_unit_number_only_zero_refused", E, "                if power != 1 {\n                    return Err(Error::new(*node.span(), IllegalUnitNumber));", "                if power == 0 {\n                    return Err(Error::new(*node.span(), IllegalUnitNumber));", "C05")
m("c05_unit_exponent_wraps", E, "                        let power = match str::parse::<i32>(&source[span.range()]) {\n                            Ok(power) => power,", "                        let power = match str::parse::<i64>(&source[span.range()]) {\n                            Ok(power) => power as i32,", "C05")
# a unit with an open finding gets yet another wrong value (fails the repository's own test_dalton: only the key of the finding is tested here)
m("c05_dalton_another_wrong_value", "src/units/mass.rs", "            numer: 332107813321,\n            denom: 200000000000,", "            numer: 332107813321,\n            denom: 100000000000,", "C05")
# ---- offset scales in products (fixes fbd1cc5, a4bfbd5)
m("c13_zero_point_added_in_products", C, "        Conversion::Offset(..) => return,", "        Conversion::Offset(fraction) => {\n            *ratio += Rational::new(fraction.numer, fraction.denom) * Rational::new(pow, 1);\n            return;\n        }", "C13 C09")
m("c13_fahrenheit_degree_is_one_kelvin", C, "            one - zero\n", "            one\n", "C13 C09")
m("c13_identical_units_walk_the_conversion", C, "        // The very same unit on both sides needs no conversion at all.\n        if self == other {\n            return Ok(true);\n        }\n\n", "", "C13")
m("c04_bases_match_off_by_one", C, "                if p.signum() == s.signum() && p * p.signum() <= s * s.signum() {", "                if p.signum() == s.signum() && p * p.signum() < s * s.signum() {", "C04")
m("c04_rhs_prefix_dropped", C, "            *rhs *= Rational::new(10u32, 1u32).pow(state.prefix * state.power);", "", "C04 C13")
m("c04_unit_pow_ignores_n", C, "            let power = state.power.checked_mul(n)?;\n\n            if power != 0 {", "            let power = state.power.checked_mul(n.signum())?;\n\n            if power != 0 {", "C04")
# ---- C05
m("c05_slash_does_not_flip", E, "            OP_DIV => {\n                current = -current;\n            }", "            OP_DIV => {\n                current = -1;\n            }", "C05")
m("c05_power_overwrites", E, "                        let rest = match power.checked_sub(1).and_then(|p| p.checked_mul(current)) {", "                        let rest = match power.checked_sub(1).and_then(|p| p.checked_mul(1)) {", "C05")
m("c05_inch_factor", "src/units/length.rs", "INCH", "INCH", "C05", 0)
# ---- C06
m("c06_prio_add_eq_mul", G, "PLUS => (2, OP_ADD, false),", "PLUS => (3, OP_ADD, false),", "C06 C01")
m("c06_cmp_swapped", G, "            match priority.cmp(&prev.1) {", "            match prev.1.cmp(&priority) {", "C06 C01")
m("c06_stack_never_popped", G, "                    if n >= 2 && stack[n - 2].1 >= priority {", "                    if n >= 2 && stack[n - 2].1 > priority {", "C06 C01")
m("c06_eat_ignores_skip", P, "            match self.get(skip.0 + n) {\n                Some(t) if t.kind == *k => {}", "            match self.get(n) {\n                Some(t) if t.kind == *k => {}", "C06")
m("c06_root_tokens_are_results", Q, "            if node.has_children() {\n                break node;\n            }", "            break node;", "C06 C19")
m("c06_pow_prio", G, "CARET | STARSTAR => (10, OP_POWER, false),", "CARET | STARSTAR => (3, OP_POWER, false),", "C06 C01")
# ---- C07
m("c07_leading_zero_after_point", R, "                b'.' if !dot => {\n                    init = true;\n                    dot = true;\n                }", "                b'.' if !dot => {\n                    dot = true;\n                }", "C07 C01")
m("c07_exponent_sign_ignored", R, "                    if neg {\n                        out /= ten.pow(exp);\n                    } else {", "                    if neg && exp > 1 {\n                        out /= ten.pow(exp);\n                    } else {", "C07")
m("c07_lexer_stops_at_capital_e", L, "                ('e' | 'E', '-' | '+' | '0'..='9') => {", "                ('e', '-' | '+' | '0'..='9') => {", "C07")
m("c07_checked_mul_wrapping", R, "exp = match exp.checked_mul(10).and_then(|exp| exp.checked_add(n)) {\n                                    Some(exp) => exp,\n                                    None => return Err(ParseRationalError(())),\n                                };", "exp = exp.wrapping_mul(10).wrapping_add(n) % 1000;", "C07")
m("c07_plus_sign_negates", R, "matches!(it.next(), Some(b'-'))\n        } else {\n            false\n        };\n\n        while let Some(b) = it.next() {", "!matches!(it.next(), Some(b'+')) || false\n        } else {\n            false\n        };\n\n        while let Some(b) = it.next() {", "C07", 0)
# ---- C08
m("c08_mark_inverted_whole", D, "        if !rem.is_zero() && self.spec.show_continuation {\n            f.write_char('…')?;\n        }\n\n        Ok(())\n    }\n}", "        if rem.is_zero() && self.spec.show_continuation {\n            f.write_char('…')?;\n        }\n\n        Ok(())\n    }\n}", "C08 C19")
m("c08_exp_off_by_one", D, "        let exp = it.count() + used;", "        let exp = it.count() + used + 1;", "C08")
m("c08_sign_lost_small", D, "                if neg {\n                    f.write_char('-')?;\n                }\n\n                if exp.unsigned_abs()", "                if neg && exp > -3 {\n                    f.write_char('-')?;\n                }\n\n                if exp.unsigned_abs()", "C08")
m("c08_rounding_instead_of_cut", D, "            for d in emit(&mut rem, den).take(self.spec.limit) {\n                fmt::Display::fmt(&d, f)?;\n            }\n        }\n\n        if !rem.is_zero()", "            let ds: Vec<u8> = emit(&mut rem, den).take(self.spec.limit).collect();\n            for (i, d) in ds.iter().enumerate() {\n                let d = if i + 1 == ds.len() && *d < 9 && &rem * 2u32 >= *den { *d + 1 } else { *d };\n                fmt::Display::fmt(&d, f)?;\n            }\n        }\n\n        if !rem.is_zero()", "C08 C19")
# ---- C09
m("c09_f_to_ratio", T, "                *num *= Rational::new(5, 9);\n                *num += Rational::new(27315, 100);", "                *num *= Rational::new(9, 5);\n                *num += Rational::new(27315, 100);", "C09")
m("c09_offset_sign", C, "                *ratio += Rational::new(fraction.numer, fraction.denom) * Rational::new(pow, 1);", "                *ratio -= Rational::new(fraction.numer, fraction.denom) * Rational::new(pow, 1);", "C09")
m("c09_32_sign", T, "                *num -= Rational::new(32, 1);", "                *num += Rational::new(32, 1);", "C09")
m("c09_celsius_constant", T, "numer: 27315,\n            denom: 100,", "numer: 27316,\n            denom: 100,", "C09")
# ---- C10
m("c10_floor_is_trunc", R, "            rational: self.rational.floor(),", "            rational: self.rational.trunc(),", "C10")
m("c10_round_scale_inverted", B, "        let ten = Rational::new(10u32, 1u32).pow(second);", "        let ten = Rational::new(10u32, 1u32).pow(-second);", "C10")
m("c10_unit_dropped", B, "    let value = first.value.ceil();\n    debug_assert!(value.denom().is_one());\n    Ok(Numeric::new(value, first.unit))", "    let value = first.value.ceil();\n    debug_assert!(value.denom().is_one());\n    Ok(Numeric::new(value, crate::Compound::empty()))", "C10")
m("c10_arity_not_checked", B, "        (Some(first), None) if actual == 1 => Ok(first),", "        (Some(first), _) => Ok(first),", "C10")
# ---- C11
m("c11_slice_panic", E, "                let power = match str::parse::<i32>(&source[node.range()]) {", "                let power = match str::parse::<i32>(&source[node.range().start..node.range().end + 0].trim_start_matches('+')) {", "C11", 0)
m("c11_unit_pow_unchecked", C, "            let power = state.power.checked_mul(n)?;", "            let power = state.power * n;", "C11")
m("c11_error_span_shifted", "src/error.rs", "self.span.range()", "self.span.range()", "C11", 0)
# ---- C12
m("c12_escape_word_swallows", L, "        while matches!(self.peek(), Some(c) if c.is_whitespace() || c == '}') {", "        while matches!(self.peek(), Some(c) if !c.is_whitespace()) {", "C12", 0)
m("c12_bump_drops_token", P, "            self.builder.token(t.kind, t.len)?;\n            self.buf.pop_front();", "            if t.kind != COMMA {\n                self.builder.token(t.kind, t.len)?;\n            }\n            self.buf.pop_front();", "C12")
m("c12_len_in_chars", L, "        Some(Token {\n            len: self.pos.saturating_sub(start),\n            kind,\n        })\n    }\n}\n\nimpl Iterator", "        Some(Token {\n            len: self.source[start..self.pos].chars().count(),\n            kind,\n        })\n    }\n}\n\nimpl Iterator", "C12")
# ---- C13
m("c13_mul_empty_side", C, "                    .map(|(unit, state)| (*unit, (state.power * n, state.prefix)))", "                    .map(|(unit, state)| (*unit, (state.power, state.prefix)))", "C13 C04")
# ---- C14
m("c14_multithreaded_writer", DB, "db.index.writer_with_num_threads(1, 50_000_000)?", "db.index.writer(50_000_000)?", "C14")
# ---- C15
m("c15_meta_before_commit", DB, "            #[cfg(anything_verif)]\n            crate::verif_hooks::crash_point(\"before-commit\");\n            writer.commit()?;", "            config.meta.version = Some(config.this_version.to_owned());\n            config.meta.database_hash = Some(hash.clone());\n            if !in_memory {\n                config.write_meta()?;\n            }\n            #[cfg(anything_verif)]\n            crate::verif_hooks::crash_point(\"before-commit\");\n            writer.commit()?;", "C15")
m("c15_hash_compare_inverted", DB, "Some(existing) if !in_memory => existing != hash,", "Some(existing) if !in_memory => existing == hash,", "C15")
m("c15_version_check_dropped", DB, "        Some(version) => version != config.this_version,\n        _ => true,", "        Some(_version) => false,\n        _ => true,", "C15")
m("c15_no_delete_all", DB, "            writer.delete_all_documents()?;", "", "C15")
m("c15_strict_meta_reader", CF, "        Err(e) => {\n            log::error!(\"failed to open meta: {e}\");\n            None\n        }", "        Err(e) => {\n            panic!(\"failed to open meta: {e}\");\n        }", "C15")
m("c15_rebuild_flag_not_ored", DB, "            rebuild = rebuild || index_rebuild;", "            let _ = index_rebuild;", "C15")
m("c15_meta_not_removed", DB, "    if config.meta_path.is_file() {\n        fs::remove_file(&config.meta_path)?;\n    }\n", "", "C15")
# ---- C16
m("c16_ngram_query_side", DB, "NgramTokenizer::new(1, 7, true)", "NgramTokenizer::new(2, 7, true)", "C16 C14")
m("c16_no_lowercaser", DB, "TextAnalyzer::from(NgramTokenizer::new(1, 7, true)).filter(LowerCaser)", "TextAnalyzer::from(NgramTokenizer::new(1, 7, true))", "C16", 0)
m("c16_undecodable_skipped_silently", DB, "            doc.add_bytes(self.field_data, serde_cbor::to_vec(&c)?);", "            doc.add_bytes(self.field_data, serde_cbor::to_vec(&c.tokens)?);", "C16")
m("c16_last_token_not_indexed", DB, "            for token in &c.tokens {\n                doc.add_text", "            for token in c.tokens.iter().take(3) {\n                doc.add_text", "C16")
# ---- C17
m("c17_id_arm_swapped", "src/generated/ids.rs", None, None, "C17", 0)
# ---- C18
m("c18_description_when_disabled", E, "                    if q.options.describe {\n", "                    if q.options.describe || c.source.is_none() {\n", "C18")
m("c18_description_pushed_twice", E, "                        q.descriptions\n                            .push(Description::Constant(s.into(), c.clone()));", "                        q.descriptions\n                            .push(Description::Constant(s.into(), c.clone()));\n                        if c.tokens.len() > 3 {\n                            q.descriptions.push(Description::Constant(s.into(), c.clone()));\n                        }", "C18")
m("c18_describe_changes_value", E, "                    Ok(Numeric::new(c.value.clone(), c.unit))", "                    if q.options.describe && c.tokens.len() == 3 {\n                        return Ok(Numeric::new(c.value.clone().round(), c.unit));\n                    }\n                    Ok(Numeric::new(c.value.clone(), c.unit))", "C18")
# ---- C19
m("c19_limit_11", A, "spec.limit = 12;", "spec.limit = 11;", "C19")
m("c19_numer_denom_swapped", A, 'write!(out, "{}/{}", value.value.numer(), value.value.denom())?;', 'write!(out, "{}/{}", value.value.denom(), value.value.numer())?;', "C19")
m("c19_space_rule", A, "                if value.unit.has_numerator() {", "                if !value.unit.is_empty() {", "C19")
m("c19_pluralise_inverted", A, "value.unit.display(!value.value.is_one())", "value.unit.display(value.value.is_one())", "C19")
m("c19_break_on_error", A, "                term::emit(&mut out, &config, &files, &diagnostic)?;\n            }\n        }\n    }", "                term::emit(&mut out, &config, &files, &diagnostic)?;\n                break;\n            }\n        }\n    }", "C19")
m("c19_has_numerator_ge", C, "        self.names.values().any(|s| s.power > 0)", "        self.names.values().any(|s| s.power >= -1)", "C19")

def emit():
    out = "/verif/mutants"
    os.makedirs(out, exist_ok=True)
    bad = 0
    for mu in M:
        if mu["count"] == 0 or mu["old"] is None:
            continue
        path = "/repo/" + mu["file"]
        s = open(path).read()
        n = s.count(mu["old"])
        if n < 1:
            print("DOES NOT APPLY:", mu["name"], "(0 matches)"); bad += 1; continue
        t = s.replace(mu["old"], mu["new"], 1)
        with tempfile.TemporaryDirectory() as td:
            a = os.path.join(td, "a"); b = os.path.join(td, "b")
            os.makedirs(os.path.dirname(os.path.join(a, mu["file"])), exist_ok=True)
            os.makedirs(os.path.dirname(os.path.join(b, mu["file"])), exist_ok=True)
            open(os.path.join(a, mu["file"]), "w").write(s); open(os.path.join(b, mu["file"]), "w").write(t)
            d = subprocess.run(["diff", "-u", "--label", "a/" + mu["file"], "--label", "b/" + mu["file"], os.path.join(a, mu["file"]), os.path.join(b, mu["file"])], capture_output=True, text=True).stdout
        open(f"{out}/{mu['name']}.diff", "w").write(d)
    print(f"{len([x for x in M if x['count'] and x['old'] is not None])} mutants, {bad} do not apply")
    return bad

if __name__ == "__main__":
    if sys.argv[1:] == ["emit"]:
        sys.exit(1 if emit() else 0)
    for mu in M:
        if mu["count"] and mu["old"] is not None:
            print(mu["name"], mu["checks"])
