#!/bin/sh
# tools/confirm_seed.sh <worktree> <diff> <demo.rs|demo.sh>
# Confirms a seeded change in a scratch worktree: clean tree -> demo passes; with the change -> builds,
# the repository's own suite passes, the demo fails.  Prints CONFIRM lines; leaves the worktree clean.
W="$1"; D="$(readlink -f "$2")"; DEMO="$(readlink -f "$3")"
export CARGO_NET_OFFLINE=true
cd "$W" || exit 2
git checkout -q -- . ; rm -f tests/zz_seed_demo.rs
run_demo() {
  case "$DEMO" in
    *.rs) cp "$DEMO" tests/zz_seed_demo.rs; cargo test --offline --test zz_seed_demo >/tmp/confirm_demo.$$ 2>&1; rc=$?; rm -f tests/zz_seed_demo.rs ;;
    *.sh) bash "$DEMO" >/tmp/confirm_demo.$$ 2>&1; rc=$? ;;
  esac
  return $rc
}
git apply --check "$D" || { echo "CONFIRM diff does not apply"; exit 1; }
run_demo; clean_rc=$?
echo "CONFIRM demo on clean tree: exit=$clean_rc"
[ $clean_rc -ne 0 ] && tail -15 /tmp/confirm_demo.$$
git apply "$D"
if ! cargo build --offline >/tmp/confirm_build.$$ 2>&1; then echo "CONFIRM build FAILED with change"; tail -20 /tmp/confirm_build.$$; git checkout -q -- .; exit 1; fi
cargo test --workspace --no-fail-fast --offline >/tmp/confirm_test.$$ 2>&1; trc=$?
echo "CONFIRM suite with change: exit=$trc $(grep -E '^test result' /tmp/confirm_test.$$ | awk '{p+=$4; f+=$6} END {print "passed=" p " failed=" f}')"
run_demo; mut_rc=$?
echo "CONFIRM demo with change: exit=$mut_rc"
grep -E "panicked|assert|FAILED|failed" /tmp/confirm_demo.$$ | head -5
git checkout -q -- .
rm -f /tmp/confirm_demo.$$ /tmp/confirm_build.$$ /tmp/confirm_test.$$
if [ $clean_rc -eq 0 ] && [ $trc -eq 0 ] && [ $mut_rc -ne 0 ]; then echo "CONFIRM OK"; exit 0; fi
echo "CONFIRM NOT CONFIRMED"; exit 1
