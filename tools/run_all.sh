#!/bin/sh
# tools/run_all.sh [--quick|--thorough] : run every check once, print one verdict line each
TIER="${1:---quick}"
cd /verif || exit 2
rc=0
for P in C01 C02 C03 C04 C05 C06 C07 C08 C09 C10 C11 C12 C13 C14 C15 C16 C17 C18 C19; do
  out=$(./check $P $TIER 2>&1); code=$?
  echo "$out" | grep -E "^property=|^VIOLATION|^INCONCLUSIVE" | sed "s/^/[$code] /"
  [ $code -ne 0 ] && rc=1
done
exit $rc
