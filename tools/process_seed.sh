#!/bin/sh
# tools/process_seed.sh <PROP> <checks...> : confirm every <tag>.diff in /tmp/seed/<PROP>, then run the given checks (scratch matrix) on each
P="$1"; shift
for T in $(ls /tmp/seed/$P/out/*.diff 2>/dev/null | xargs -n1 basename | sed "s/.diff//"); do
  D=/tmp/seed/$P/out/$T.diff
  [ -f "$D" ] || continue
  DEMO=$(ls /tmp/seed/$P/out/${T}_demo.* 2>/dev/null | head -1)
  /verif/tools/confirm_seed.sh /tmp/seed/$P "$D" "$DEMO" 2>&1 | grep CONFIRM | sed "s/^/$P-$T /"
done
for T in $(ls /tmp/seed/$P/out/*.diff 2>/dev/null | xargs -n1 basename | sed "s/.diff//"); do
  D=/tmp/seed/$P/out/$T.diff
  [ -f "$D" ] || continue
  /verif/tools/mutant_scratch.sh "$P$T" "$D" "$@" 2>&1 | grep MATRIX &
done
wait
