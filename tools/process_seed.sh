#!/bin/sh
# tools/process_seed.sh <PROP> <checks...> : confirm A and B in /tmp/seed/<PROP>, then run the given checks (scratch matrix) on each
P="$1"; shift
for T in A B; do
  D=/tmp/seed/$P/out/$T.diff
  [ -f "$D" ] || continue
  DEMO=$(ls /tmp/seed/$P/out/${T}_demo.* 2>/dev/null | head -1)
  /verif/tools/confirm_seed.sh /tmp/seed/$P "$D" "$DEMO" 2>&1 | grep CONFIRM | sed "s/^/$P-$T /"
done
for T in A B; do
  D=/tmp/seed/$P/out/$T.diff
  [ -f "$D" ] || continue
  /verif/tools/mutant_scratch.sh "$P$T" "$D" "$@" 2>&1 | grep MATRIX &
done
wait
