#!/bin/sh
# tools/benign_matrix.sh [parallel] : every quick check against every semantics-preserving change in /verif/benign; all must exit 0
PAR="${1:-3}"
ls /verif/benign/*.diff | xargs -P "$PAR" -n 1 sh -c 'n=$(basename "$0" .diff); VERIF_AS_LIMIT_KB=30000000 /verif/tools/mutant_scratch.sh "bn_$n" "$0" 2>&1 | grep MATRIX'
